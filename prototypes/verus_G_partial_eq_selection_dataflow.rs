#![feature(proc_macro_hygiene)]
#![allow(unused)]
use vstd::prelude::*;

verus! {
#[verifier::external_body]
#[derive(Clone, Copy)]
pub struct Span { _p: u8 }
#[verifier::external_body]
pub struct Error { _p: u8 }
#[verifier::external_body]
pub struct Expr { _p: u8 }
#[verifier::external_body]
pub struct Type { _p: u8 }
#[verifier::external_body]
pub struct Ident { _p: u8 }
pub type Result<T> = core::result::Result<T, Error>;

// abstract token stream: only records which *user expressions* were interpolated
#[verifier::external_body]
pub struct TokenStream { _p: u8 }
pub uninterp spec fn uses(t: &TokenStream) -> Set<int>;      // ids of user exprs mentioned
pub uninterp spec fn expr_id(e: &Expr) -> int;
pub uninterp spec fn tmpl_id(e: &Template) -> int;
pub trait ToTok { spec fn tok_uses(&self) -> Set<int>; }
impl ToTok for TokenStream { open spec fn tok_uses(&self) -> Set<int> { uses(self) } }
impl ToTok for Expr { open spec fn tok_uses(&self) -> Set<int> { set![expr_id(self)] } }
impl ToTok for Type { open spec fn tok_uses(&self) -> Set<int> { Set::empty() } }
impl ToTok for Ident { open spec fn tok_uses(&self) -> Set<int> { Set::empty() } }
impl<T: ToTok> ToTok for &T { open spec fn tok_uses(&self) -> Set<int> { (**self).tok_uses() } }
impl TokenStream {
    #[verifier::external_body] pub fn new() -> (r: TokenStream) ensures uses(&r) == Set::<int>::empty() { unimplemented!() }
    #[verifier::external_body] pub fn q_push<T: ToTok>(&mut self, t: &T) ensures uses(final(self)) == uses(old(self)).union(t.tok_uses()) { unimplemented!() }
}
pub struct Template { pub e: Expr }
impl Template {
    #[verifier::external_body] pub fn span(&self) -> Span { unimplemented!() }
    #[verifier::external_body] pub fn build_eq_expr(&self, this: TokenStream, other: TokenStream) -> (r: TokenStream)
        ensures uses(&r) == set![tmpl_id(self)].union(uses(&this)).union(uses(&other)) { unimplemented!() }
}
impl Expr { #[verifier::external_body] pub fn span(&self) -> Span { unimplemented!() } }
pub struct Flag { pub span: Option<Span> }
#[verifier::external_body]
pub fn verif_error(span: Span) -> Error { unimplemented!() }
#[verifier::external_body]
pub struct Msg { _p: u8 }
pub struct Field { pub ident: Option<Ident>, pub ty: Type }
pub struct Bounds { pub default: bool }
pub struct WhereClauseBuilder { pub n: usize }
impl WhereClauseBuilder { #[verifier::external_body] pub fn push_bounds(&mut self, b: &Bounds) -> bool { unimplemented!() } }
pub struct HelperAttributes { pub cmp: HelperAttributesForCompareOp }
pub struct FieldEntry<'a> { pub index: usize, pub field: &'a Field, pub hattrs: HelperAttributes }
impl<'a> FieldEntry<'a> {
  #[verifier::external_body] pub fn span(&self) -> Span { unimplemented!() }
  #[verifier::external_body] pub fn make_ident(&self, prefix: &str) -> Ident { unimplemented!() }
}
#[derive(Clone, Copy)]
pub enum ItemSourceKind { Struct, Enum }
impl ItemSourceKind {
  #[verifier::external_body] pub fn self_of(self, field: &FieldEntry) -> (r: TokenStream) ensures uses(&r) == Set::<int>::empty() { unimplemented!() }
  #[verifier::external_body] pub fn other_of(self, field: &FieldEntry) -> (r: TokenStream) ensures uses(&r) == Set::<int>::empty() { unimplemented!() }
}

// ---- spec vocabulary ----
pub open spec fn sel_ok(sel: Option<&HelperAttributeForCompareOp>, t: &TokenStream) -> bool {
    match sel {
        Some(a) => (a.by matches Some(b) && uses(t) =~= set![expr_id(&b)]) || (a.key matches Some(k) && uses(t) =~= set![tmpl_id(&k)]),
        None => uses(t) =~= Set::<int>::empty(),
    }
}
pub open spec fn custom(a: &HelperAttributeForCompareOp) -> bool { a.by.is_some() || a.key.is_some() }
pub open spec fn any_custom(h: &HelperAttributesForCompareOp) -> bool {
    custom(&h.ord) || custom(&h.partial_ord) || custom(&h.eq) || custom(&h.partial_eq) || custom(&h.hash)
}
pub open spec fn attr_ids(a: &HelperAttributeForCompareOp) -> Set<int> {
    (if let Some(b) = a.by { set![expr_id(&b)] } else { Set::empty() }).union(
     if let Some(k) = a.key { set![tmpl_id(&k)] } else { Set::empty() })
}
// documented precedence for PartialEq: partial_eq, eq, partial_ord, ord
pub open spec fn sel_peq(h: &HelperAttributesForCompareOp) -> Option<&HelperAttributeForCompareOp> {
    if custom(&h.partial_eq) { Some(&h.partial_eq) }
    else if custom(&h.eq) { Some(&h.eq) }
    else if custom(&h.partial_ord) { Some(&h.partial_ord) }
    else if custom(&h.ord) { Some(&h.ord) }
    else { None }
}
}
macro_rules! bail {
    ($span:expr, $($arg:tt)*) => { return core::result::Result::Err(verif_error($span)) };
}
macro_rules! __q {
    ($q:ident;) => {};
    ($q:ident; # $v:ident $($rest:tt)*) => { $q.q_push(&$v); __q!($q; $($rest)*); };
    ($q:ident; ( $($inner:tt)* ) $($rest:tt)*) => { __q!($q; $($inner)*); __q!($q; $($rest)*); };
    ($q:ident; { $($inner:tt)* } $($rest:tt)*) => { __q!($q; $($inner)*); __q!($q; $($rest)*); };
    ($q:ident; [ $($inner:tt)* ] $($rest:tt)*) => { __q!($q; $($inner)*); __q!($q; $($rest)*); };
    ($q:ident; $t:tt $($rest:tt)*) => { __q!($q; $($rest)*); };
}
macro_rules! quote { ($($t:tt)*) => {{ let mut __qs = TokenStream::new(); __q!(__qs; $($t)*); __qs }}; }
macro_rules! quote_spanned { ($span:expr => $($t:tt)*) => {{ let _ = $span; let mut __qs = TokenStream::new(); __q!(__qs; $($t)*); __qs }}; }

#[verus_verify]
#[derive(Copy, Clone, Eq, PartialEq)]
pub enum CompareOp { Ord, PartialOrd, Eq, PartialEq, Hash }

#[verus_verify]
pub struct HelperAttributeForCompareOp {
    pub ignore: Flag,
    pub reverse: Flag,
    pub by: Option<Expr>,
    pub key: Option<Template>,
    pub bounds: Bounds,
}
#[verus_verify]
impl HelperAttributeForCompareOp {
    fn push_bounds_to(&self, use_bounds: &mut bool, wcb: &mut WhereClauseBuilder) {
        if *use_bounds {
            *use_bounds = wcb.push_bounds(&self.bounds)
        }
    }
}
#[verus_verify]
pub struct HelperAttributesForCompareOp {
    pub ord: HelperAttributeForCompareOp,
    pub partial_ord: HelperAttributeForCompareOp,
    pub eq: HelperAttributeForCompareOp,
    pub partial_eq: HelperAttributeForCompareOp,
    pub hash: HelperAttributeForCompareOp,
}
#[verus_verify]
impl HelperAttributesForCompareOp {
    #[verifier::external_body]
    #[verus_spec(r => ensures r is Some <==> any_custom(self))]
    fn bad_attr(&self) -> Option<(Msg, Span)> { unimplemented!() }
}
#[verus_verify]
#[verifier::external_body]
#[verus_spec(r => ensures r is Err)]
fn bad_attr<T>(op: CompareOp, bad: (Msg, Span), good: &[&str]) -> Result<T> {
    unimplemented!()
}

#[verus_verify]
#[verus_spec(r =>
  ensures
    r is Err <==> (sel_peq(&field.hattrs.cmp) is None && any_custom(&field.hattrs.cmp)),
    r matches Ok(t) ==> (*final(field_used) == (sel_peq(&field.hattrs.cmp) is None || *old(field_used)))
        && sel_ok(sel_peq(&field.hattrs.cmp), &t),
)]
fn build_partial_eq_expr(
    source: ItemSourceKind,
    field: &FieldEntry,
    field_used: &mut bool,
    use_bounds: &mut bool,
    wcb: &mut WhereClauseBuilder,
) -> Result<TokenStream> {
    let op = CompareOp::PartialEq;
    let ty = &field.field.ty;
    let fn_ident = field.make_ident("__eq_");
    let this = source.self_of(field);
    let other = source.other_of(field);
    let cmp = &field.hattrs.cmp;
    cmp.partial_eq.push_bounds_to(use_bounds, wcb);

    let build_expr_by_eq = #[verus_spec(r: TokenStream => ensures uses(&r) =~= set![expr_id(by)])] |by: &Expr| {
        quote! {
            {
                fn #fn_ident(this: &#ty, other: &#ty, eq: impl ::core::ops::Fn(&#ty, &#ty) -> bool) -> bool {
                    eq(this, other)
                }
                #fn_ident(&#this, &#other, #by)
            }
        }
    };

    if let Some(by) = &cmp.partial_eq.by {
        return Ok(build_expr_by_eq(by));
    }
    if let Some(key) = &cmp.partial_eq.key {
        return Ok(key.build_eq_expr(this, other));
    }

    cmp.eq.push_bounds_to(use_bounds, wcb);
    if let Some(by) = &cmp.eq.by {
        return Ok(build_expr_by_eq(by));
    }
    if let Some(key) = &cmp.eq.key {
        return Ok(key.build_eq_expr(this, other));
    }

    cmp.partial_ord.push_bounds_to(use_bounds, wcb);
    if let Some(by) = &cmp.partial_ord.by {
        return Ok(quote! {
            {
                fn #fn_ident(this: &#ty, other: &#ty, partial_cmp: impl Fn(&#ty, &#ty) -> ::core::option::Option<::core::cmp::Ordering>) -> bool {
                    partial_cmp(this, other) == ::core::option::Option::Some(::core::cmp::Ordering::Equal)
                }
                #fn_ident(&#this, &#other, #by)
            }
        });
    }
    if let Some(key) = &cmp.partial_ord.key {
        return Ok(key.build_eq_expr(this, other));
    }

    cmp.ord.push_bounds_to(use_bounds, wcb);
    if let Some(by) = &field.hattrs.cmp.ord.by {
        return Ok(quote! {
            {
                fn #fn_ident(this: &#ty, other: &#ty, cmp: impl ::core::ops::Fn(&#ty, &#ty) -> ::core::cmp::Ordering) -> bool {
                    cmp(this, other) == ::core::cmp::Ordering::Equal
                }
                #fn_ident(&#this, &#other, #by)
            }
        });
    }
    if let Some(key) = &field.hattrs.cmp.ord.key {
        return Ok(key.build_eq_expr(this, other));
    }
    if let Some(bad) = cmp.bad_attr() {
        return bad_attr(
            op,
            bad,
            &[
                "partial_eq(key = ...)",
                "partial_eq(by = ...)",
                "eq(key = ...)",
                "eq(by = ...)",
                "partial_ord(key = ...)",
                "partial_ord(by = ...)",
                "ord(key = ...)",
                "ord(by = ...)",
            ],
        );
    }

    *field_used = true;
    Ok(quote_spanned!(field.span()=> ::core::cmp::PartialEq::eq(&(#this), &(#other))))
}
fn main() {}

#![feature(proc_macro_hygiene)]
#![allow(unused)]
use vstd::prelude::*;

verus! {
#[verifier::external_body]
pub struct Type { _p: u8 }
#[verifier::external_body]
pub struct WherePredicate { _p: u8 }
pub struct Bounds { pub ty: Vec<Type>, pub pred: Vec<WherePredicate>, pub default: bool }
pub struct WhereClauseBuilder { pub types: Vec<Type>, pub preds: Vec<WherePredicate> }
impl WhereClauseBuilder {
    #[verifier::external_body]
    pub fn push_bounds(&mut self, bounds: &Bounds) -> (r: bool)
        ensures final(self).types@ == old(self).types@ + bounds.ty@, final(self).preds@ == old(self).preds@ + bounds.pred@, r == bounds.default
    { unimplemented!() }
}
// chain state and reference
pub struct St { pub types: Seq<Type>, pub preds: Seq<WherePredicate>, pub go: bool }
pub open spec fn step(s: St, b: &Bounds) -> St {
    if s.go { St { types: s.types + b.ty@, preds: s.preds + b.pred@, go: b.default } } else { s }
}
pub open spec fn affects(src: CompareOp, tgt: CompareOp) -> bool {
    match tgt {
        CompareOp::Ord => src == CompareOp::Ord,
        CompareOp::PartialOrd => src == CompareOp::PartialOrd || src == CompareOp::Ord,
        CompareOp::Eq => src == CompareOp::Eq || src == CompareOp::Ord,
        CompareOp::PartialEq => src != CompareOp::Hash,
        CompareOp::Hash => src == CompareOp::Hash || src == CompareOp::Eq || src == CompareOp::Ord,
    }
}
pub open spec fn step_if(s: St, h: &HelperAttributesForCompareOp, src: CompareOp, tgt: CompareOp) -> St {
    if affects(src, tgt) { step(s, &attr_of(h, src).bounds) } else { s }
}
// documented order: most specific first = hash, partial_eq, eq, partial_ord, ord
pub open spec fn helper_ref(s: St, h: &HelperAttributesForCompareOp, tgt: CompareOp) -> St {
    step_if(step_if(step_if(step_if(step_if(s, h, CompareOp::Hash, tgt), h, CompareOp::PartialEq, tgt), h, CompareOp::Eq, tgt), h, CompareOp::PartialOrd, tgt), h, CompareOp::Ord, tgt)
}
pub open spec fn attr_of(h: &HelperAttributesForCompareOp, op: CompareOp) -> &HelperAttributeForCompareOp {
    match op {
        CompareOp::Ord => &h.ord,
        CompareOp::PartialOrd => &h.partial_ord,
        CompareOp::Eq => &h.eq,
        CompareOp::PartialEq => &h.partial_eq,
        CompareOp::Hash => &h.hash,
    }
}
pub open spec fn foldk(s: St, h: &HelperAttributesForCompareOp, tgt: CompareOp, srcs: Seq<&CompareOp>, k: int) -> St
    decreases k
{
    if k <= 0 { s } else { step_if(foldk(s, h, tgt, srcs, k - 1), h, *srcs[k - 1], tgt) }
}
pub open spec fn variants_spec() -> Seq<CompareOp> { seq![CompareOp::Hash, CompareOp::PartialEq, CompareOp::Eq, CompareOp::PartialOrd, CompareOp::Ord] }
pub open spec fn st(w: &WhereClauseBuilder, go: bool) -> St { St { types: w.types@, preds: w.preds@, go } }
}

#[verus_verify]
#[derive(Copy, Clone, Eq, PartialEq)]
pub enum CompareOp { Ord, PartialOrd, Eq, PartialEq, Hash }
#[verus_verify]
impl CompareOp {
    // R2: external const + spec generated from the literal
    #[verifier::external_body]
    #[verus_spec(r => ensures r@ == variants_spec())]
    fn variants_r2() -> &'static [CompareOp] { unimplemented!() }

    #[verus_spec(r => ensures r == affects(self, target))]
    fn is_effects_to(self, target: Self) -> bool {
        matches!(
            (target, self),
            (Self::Ord, Self::Ord)
                | (Self::PartialOrd, Self::PartialOrd | Self::Ord)
                | (Self::Eq, Self::Eq | Self::Ord)
                | (
                    Self::PartialEq,
                    Self::PartialEq | Self::Eq | Self::PartialOrd | Self::Ord
                )
                | (Self::Hash, Self::Hash | Self::Eq | Self::Ord)
        )
    }
}
#[verus_verify]
pub struct HelperAttributeForCompareOp { pub bounds: Bounds }
#[verus_verify]
pub struct HelperAttributesForCompareOp {
    pub ord: HelperAttributeForCompareOp,
    pub partial_ord: HelperAttributeForCompareOp,
    pub eq: HelperAttributeForCompareOp,
    pub partial_eq: HelperAttributeForCompareOp,
    pub hash: HelperAttributeForCompareOp,
}
#[verus_verify]
impl HelperAttributesForCompareOp {
    #[verus_spec(r => ensures r == attr_of(self, op))]
    fn get(&self, op: CompareOp) -> &HelperAttributeForCompareOp {
        match op {
            CompareOp::Ord => &self.ord,
            CompareOp::PartialOrd => &self.partial_ord,
            CompareOp::Eq => &self.eq,
            CompareOp::PartialEq => &self.partial_eq,
            CompareOp::Hash => &self.hash,
        }
    }
    #[verus_spec(r => ensures st(final(wcb), r) == helper_ref(st(old(wcb), true), self, op))]
    pub fn push_bounds(&self, op: CompareOp, wcb: &mut WhereClauseBuilder) -> bool {
        let mut use_bounds = true;
        #[verus_spec(iter => invariant
            iter.seq().len() == 5,
            forall|i: int| 0 <= i < 5 ==> *iter.seq()[i] == variants_spec()[i],
            0 <= iter.index@ <= 5,
            st(wcb, use_bounds) == foldk(st(old(wcb), true), self, op, iter.seq(), iter.index@),
        )]
        for source in CompareOp::variants_r2() { let source = *source;
            if source.is_effects_to(op) && use_bounds {
                use_bounds = wcb.push_bounds(&self.get(source).bounds);
            }
        }
        proof! { reveal_with_fuel(foldk, 6); }
        use_bounds
    }
}
fn main() {}

#![feature(proc_macro_hygiene)]
#![allow(unused)]
use vstd::prelude::*;
#[verus_verify]
#[verus_spec(r => requires v@.len() == 3, v@[0] == 7, ensures r == 7 + v@[1] as int + v@[2] as int)]
fn f(v: &[u8]) -> u64 {
    let mut s: u64 = 0;
    #[verus_spec(iter => invariant
        iter.seq().len() == 3,
        forall|i: int| 0 <= i < 3 ==> *iter.seq()[i] == v@[i],
        0 <= iter.index@ <= 3,
        s == (if iter.index@ >= 1 { v@[0] as int } else { 0 }) + (if iter.index@ >= 2 { v@[1] as int } else { 0 }) + (if iter.index@ >= 3 { v@[2] as int } else { 0 }),
    )]
    for x in v {
        s = s + *x as u64;
    }
    s
}
fn main() {}

#![allow(unused)]
use derive_ex::derive_ex;
use core::cmp::Ordering;
use core::hash::{Hash, Hasher};

fn tcmp(a: &f32, b: &f32) -> Ordering { a.total_cmp(b) }
fn low(a: &u8) -> u8 { *a & 3 }

#[derive_ex(Ord, PartialOrd, Eq, PartialEq, Hash)]
#[derive(Clone, Copy, Debug)]
pub enum E {
    A,
    B(u8, #[ord(by = tcmp)] #[hash(key = $.to_bits())] f32),
    C { #[ord(key = low(&$))] x: u8, #[ord(reverse)] y: i8 },
    D(#[eq(ignore)] #[ord(ignore)] u8),
}

fn idx(e: &E) -> usize { match e { E::A => 0, E::B(..) => 1, E::C{..} => 2, E::D(..) => 3 } }
fn spec_cmp(a: &E, b: &E) -> Ordering {
    match (a, b) {
        (E::A, E::A) => Ordering::Equal,
        (E::B(a0, a1), E::B(b0, b1)) => a0.cmp(b0).then(tcmp(a1, b1)),
        (E::C{x: ax, y: ay}, E::C{x: bx, y: by}) => low(ax).cmp(&low(bx)).then(ay.cmp(by).reverse()),
        (E::D(_), E::D(_)) => Ordering::Equal,
        _ => idx(a).cmp(&idx(b)),
    }
}

#[cfg_attr(kani, kani::ensures(|r: &Ordering| *r == spec_cmp(x, y)))]
pub fn e_cmp(x: &E, y: &E) -> Ordering { Ord::cmp(x, y) }
#[cfg_attr(kani, kani::ensures(|r: &Option<Ordering>| *r == Some(spec_cmp(x, y))))]
pub fn e_partial_cmp(x: &E, y: &E) -> Option<Ordering> { PartialOrd::partial_cmp(x, y) }
#[cfg_attr(kani, kani::ensures(|r: &bool| *r == (spec_cmp(x, y) == Ordering::Equal)))]
pub fn e_eq(x: &E, y: &E) -> bool { PartialEq::eq(x, y) }

// recording hasher
pub struct Rec { buf: [u8; 24], len: usize }
impl Hasher for Rec {
    fn finish(&self) -> u64 { 0 }
    fn write(&mut self, bytes: &[u8]) {
        let mut i = 0;
        while i < bytes.len() { if self.len < 24 { self.buf[self.len] = bytes[i]; self.len += 1; } i += 1; }
    }
}
fn spec_feed(e: &E, h: &mut Rec) {
    match e {
        E::A => {}
        E::B(a0, a1) => { a0.hash(h); a1.to_bits().hash(h); }
        E::C{x, y} => { low(x).hash(h); y.hash(h); }
        E::D(_) => {}
    }
}

#[cfg(kani)]
mod proofs {
    use super::*;
    fn any_e() -> E {
        match kani::any::<u8>() % 4 {
            0 => E::A,
            1 => E::B(kani::any(), kani::any()),
            2 => E::C { x: kani::any(), y: kani::any() },
            _ => E::D(kani::any()),
        }
    }
    #[kani::proof_for_contract(e_cmp)]
    fn check_e_cmp() { let x = any_e(); let y = any_e(); e_cmp(&x, &y); }
    #[kani::proof_for_contract(e_partial_cmp)]
    fn check_e_partial_cmp() { let x = any_e(); let y = any_e(); e_partial_cmp(&x, &y); }
    #[kani::proof_for_contract(e_eq)]
    fn check_e_eq() { let x = any_e(); let y = any_e(); e_eq(&x, &y); }
    #[kani::proof]
    fn check_hash_feed() {
        let x = any_e();
        let mut h1 = Rec { buf: [0; 24], len: 0 };
        let mut h2 = Rec { buf: [0; 24], len: 0 };
        x.hash(&mut h1);
        spec_feed(&x, &mut h2);
        assert!(h1.len == h2.len);
        assert!(h1.buf == h2.buf);
    }
}

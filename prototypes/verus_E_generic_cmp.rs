use vstd::prelude::*;
use vstd::std_specs::cmp::*;
use core::cmp::Ordering;
verus! {
pub struct G<T> { pub a: T, pub b: u8 }

pub open spec fn then(o: Ordering, p: Ordering) -> Ordering {
    if o == Ordering::Equal { p } else { o }
}
pub open spec fn ord_int(a: int, b: int) -> Ordering {
    if a < b { Ordering::Less } else if a == b { Ordering::Equal } else { Ordering::Greater }
}

impl<T: PartialEq> PartialEqSpecImpl for G<T> {
    open spec fn obeys_eq_spec() -> bool { T::obeys_eq_spec() }
    open spec fn eq_spec(&self, other: &G<T>) -> bool {
        self.a.eq_spec(&other.a) && self.b == other.b
    }
}
impl<T: PartialOrd> PartialOrdSpecImpl for G<T> {
    open spec fn obeys_partial_cmp_spec() -> bool { T::obeys_partial_cmp_spec() }
    open spec fn partial_cmp_spec(&self, other: &G<T>) -> Option<Ordering> {
        match self.a.partial_cmp_spec(&other.a) {
            Some(Ordering::Equal) => Some(ord_int(self.b as int, other.b as int)),
            o => o,
        }
    }
}

impl<T> ::core::cmp::PartialEq for G<T> where T: ::core::cmp::PartialEq {
    fn eq(&self, other: &Self) -> bool {
        ::core::cmp::PartialEq::eq(&((self.a)), &((other.a))) &&
            ::core::cmp::PartialEq::eq(&((self.b)), &((other.b)))
    }
}
impl<T> ::core::cmp::PartialOrd for G<T> where T: ::core::cmp::PartialOrd {
    fn partial_cmp(&self, other: &Self)
        -> ::core::option::Option<::core::cmp::Ordering> {
        match ::core::cmp::PartialOrd::partial_cmp(&((self.a)), &((other.a)))
            {
            ::core::option::Option::Some(::core::cmp::Ordering::Equal) => {}
            o => return o,
        }
        match ::core::cmp::PartialOrd::partial_cmp(&((self.b)), &((other.b)))
            {
            ::core::option::Option::Some(::core::cmp::Ordering::Equal) => {}
            o => return o,
        }
        ::core::option::Option::Some(::core::cmp::Ordering::Equal)
    }
}
} // verus!
fn main() {}

#![feature(proc_macro_hygiene)]
#![allow(unused)]
use vstd::prelude::*;

verus! {
#[verifier::external_body]
#[derive(Clone, Copy)]
pub struct Span { _p: u8 }
#[verifier::external_body]
pub struct Error { _p: u8 }
pub type Result<T> = core::result::Result<T, Error>;
pub struct Flag { pub span: Option<Span> }
impl Flag {
    pub fn value(&self) -> (r: bool) ensures r == self.span.is_some() { self.span.is_some() }
}
#[verifier::external_body]
pub fn verif_error(span: Span) -> Error { unimplemented!() }
#[verifier::external_body]
pub struct Msg { _p: u8 }
#[verifier::external_body]
pub fn verif_msg() -> Msg { unimplemented!() }
#[verifier::external_body]
pub fn verif_str() -> &'static str { unimplemented!() }

// ---- spec (from the property statement / doc table) ----
pub open spec fn affects(src: CompareOp, target: CompareOp) -> bool {
    match target {
        CompareOp::Ord => src == CompareOp::Ord,
        CompareOp::PartialOrd => src == CompareOp::PartialOrd || src == CompareOp::Ord,
        CompareOp::Eq => src == CompareOp::Eq || src == CompareOp::Ord,
        CompareOp::PartialEq => src != CompareOp::Hash,
        CompareOp::Hash => src == CompareOp::Hash || src == CompareOp::Eq || src == CompareOp::Ord,
    }
}
pub open spec fn attr_of(h: &HelperAttributesForCompareOp, op: CompareOp) -> &HelperAttributeForCompareOp {
    match op {
        CompareOp::Ord => &h.ord,
        CompareOp::PartialOrd => &h.partial_ord,
        CompareOp::Eq => &h.eq,
        CompareOp::PartialEq => &h.partial_eq,
        CompareOp::Hash => &h.hash,
    }
}
pub open spec fn ign(h: &HelperAttributesForCompareOp, op: CompareOp) -> bool {
    (affects(CompareOp::Ord, op) && h.ord.ignore.span.is_some())
    || (affects(CompareOp::PartialOrd, op) && h.partial_ord.ignore.span.is_some())
    || (affects(CompareOp::Eq, op) && h.eq.ignore.span.is_some())
    || (affects(CompareOp::PartialEq, op) && h.partial_eq.ignore.span.is_some())
    || (affects(CompareOp::Hash, op) && h.hash.ignore.span.is_some())
}
pub open spec fn offending(h: &HelperAttributesForCompareOp, op: CompareOp) -> bool {
    ign(h, CompareOp::PartialEq) && !ign(h, op)
}
}
macro_rules! bail {
    ($span:expr, $($arg:tt)*) => { return core::result::Result::Err(verif_error($span)) };
}
macro_rules! format { ($($arg:tt)*) => { verif_str() }; }

#[verus_verify]
#[derive(Copy, Clone, Eq, PartialEq)]
pub enum CompareOp {
    Ord,
    PartialOrd,
    Eq,
    PartialEq,
    Hash,
}
#[verus_verify]
impl CompareOp {
    #[verifier::external_body]
    fn to_str_snake_case(self) -> &'static str {
        unimplemented!()
    }
}
#[verus_verify]
pub struct HelperAttributeForCompareOp {
    pub ignore: Flag,
    pub reverse: Flag,
}
#[verus_verify]
pub struct HelperAttributesForCompareOp {
    pub ord: HelperAttributeForCompareOp,
    pub partial_ord: HelperAttributeForCompareOp,
    pub eq: HelperAttributeForCompareOp,
    pub partial_eq: HelperAttributeForCompareOp,
    pub hash: HelperAttributeForCompareOp,
}
#[verus_verify]
impl HelperAttributesForCompareOp {
    #[verus_spec(r => ensures r == attr_of(self, op))]
    fn get(&self, op: CompareOp) -> &HelperAttributeForCompareOp {
        match op {
            CompareOp::Ord => &self.ord,
            CompareOp::PartialOrd => &self.partial_ord,
            CompareOp::Eq => &self.eq,
            CompareOp::PartialEq => &self.partial_eq,
            CompareOp::Hash => &self.hash,
        }
    }
    #[verus_spec(r => ensures
        r is Err <==> offending(self, op),
        r matches Ok(b) ==> b == ign(self, op),
    )]
    fn is_ignore(&self, op: CompareOp) -> Result<bool> {
        let bad_flag = 
        #[verus_spec(r => ensures r is Err <==> attr_of(self, bad).ignore.span.is_some())]
        |bad: CompareOp, good: CompareOp| -> Result<()> {
            if let Some(span) = self.get(bad).ignore.span {
                let good = good.to_str_snake_case();
                let bad = bad.to_str_snake_case();
                bad_attr_1(
                    span,
                    op,
                    &format!("{bad}(ignore)"),
                    &format!("{good}(ignore)"),
                )
            } else {
                Ok(())
            }
        };
        match op {
            CompareOp::Ord => {
                if self.ord.ignore.value() {
                    return Ok(true);
                }
                bad_flag(CompareOp::PartialOrd, CompareOp::Ord)?;
                bad_flag(CompareOp::PartialEq, CompareOp::Ord)?;
                bad_flag(CompareOp::Eq, CompareOp::Ord)?;
                Ok(false)
            }
            CompareOp::PartialOrd => {
                if self.partial_ord.ignore.value() || self.ord.ignore.value() {
                    return Ok(true);
                }
                bad_flag(CompareOp::PartialEq, CompareOp::PartialOrd)?;
                bad_flag(CompareOp::Eq, CompareOp::Ord)?;
                Ok(false)
            }
            CompareOp::Eq => {
                if self.eq.ignore.value() || self.ord.ignore.value() {
                    return Ok(true);
                }
                bad_flag(CompareOp::PartialEq, CompareOp::Eq)?;
                bad_flag(CompareOp::PartialOrd, CompareOp::Ord)?;
                Ok(false)
            }
            CompareOp::PartialEq => Ok(self.partial_eq.ignore.value()
                || self.eq.ignore.value()
                || self.partial_ord.ignore.value()
                || self.ord.ignore.value()),
            CompareOp::Hash => {
                if self.hash.ignore.value() || self.eq.ignore.value() || self.ord.ignore.value() {
                    return Ok(true);
                }
                bad_flag(CompareOp::PartialEq, CompareOp::Eq)?;
                bad_flag(CompareOp::PartialOrd, CompareOp::Ord)?;
                Ok(false)
            }
        }
    }
}
#[verus_verify]
#[verus_spec(r => ensures r is Err)]
fn bad_attr_1<T>(span: Span, op: CompareOp, bad: &str, good: &str) -> Result<T> {
    bail!(
        span,
        "When `#[derive_ex({op})]` is specified, `#[{good}]` must be used instead of `#[{bad}]`."
    )
}
fn main() {}

#![feature(proc_macro_hygiene)]
#![allow(unused)]
use vstd::prelude::*;

verus! {
#[verifier::external_body]
#[derive(Clone, Copy)]
pub struct Span { _p: u8 }
#[verifier::external_body]
pub struct Error { _p: u8 }
#[verifier::external_body]
pub struct Expr { _p: u8 }
#[verifier::external_body]
pub struct Template { _p: u8 }
#[verifier::external_body]
pub struct Type { _p: u8 }
#[verifier::external_body]
pub struct Ident { _p: u8 }
#[verifier::external_body]
pub struct TokenStream { _p: u8 }
impl TokenStream {
    #[verifier::external_body] pub fn new() -> TokenStream { unimplemented!() }
    #[verifier::external_body] pub fn extend(&mut self, t: TokenStream) { unimplemented!() }
}
pub type Result<T> = core::result::Result<T, Error>;
pub struct Flag { pub span: Option<Span> }
impl Flag {
    pub fn value(&self) -> (r: bool) ensures r == self.span.is_some() { self.span.is_some() }
}
#[verifier::external_body]
pub fn verif_error(span: Span) -> Error { unimplemented!() }
#[verifier::external_body]
pub fn verif_quote() -> TokenStream { unimplemented!() }
impl Expr { #[verifier::external_body] pub fn span(&self) -> Span { unimplemented!() } }
impl Template { #[verifier::external_body] pub fn span(&self) -> Span { unimplemented!() } 
  #[verifier::external_body] pub fn build_cmp_expr(&self, this: TokenStream, other: TokenStream) -> TokenStream { unimplemented!() } }
#[verifier::external_body]
pub struct Msg { _p: u8 }
#[verifier::external_body]
pub fn verif_msg() -> Msg { unimplemented!() }
pub struct Field { pub ident: Option<Ident>, pub ty: Type }
pub struct WhereClauseBuilder { pub types: Vec<Type> }
impl WhereClauseBuilder {
  #[verifier::external_body] pub fn push_bounds_for_field(&mut self, field: &Field) { unimplemented!() }
}
pub struct Bounds { pub default: bool }
pub struct HelperAttributes { pub cmp: HelperAttributesForCompareOp }
impl HelperAttributes {
  #[verifier::external_body] pub fn push_bounds_to_without_helper(&self, use_bounds: bool, kind: DeriveItemKind, wcb: &mut WhereClauseBuilder) -> bool { unimplemented!() }
}
pub struct FieldEntry<'a> { pub index: usize, pub field: &'a Field, pub hattrs: HelperAttributes }
impl<'a> FieldEntry<'a> {
  #[verifier::external_body] pub fn span(&self) -> Span { unimplemented!() }
  #[verifier::external_body] pub fn member(&self) -> TokenStream { unimplemented!() }
  #[verifier::external_body] pub fn make_ident(&self, prefix: &str) -> Ident { unimplemented!() }
}
pub struct VariantEntry<'a> { pub fields: Vec<FieldEntry<'a>>, pub hattrs: HelperAttributes }
#[derive(Clone, Copy)]
pub enum DeriveItemKind { CompareOp(CompareOp), Copy, Clone }
}
macro_rules! bail {
    ($span:expr, $($arg:tt)*) => { return core::result::Result::Err(verif_error($span)) };
}
macro_rules! format { ($($arg:tt)*) => { verif_msg() }; }
macro_rules! quote { ($($arg:tt)*) => { verif_quote() }; }
macro_rules! quote_spanned { ($($arg:tt)*) => { verif_quote() }; }

// ---- extracted verbatim ----
#[verus_verify]
#[derive(Copy, Clone, Eq, PartialEq)]
pub enum CompareOp {
    Ord,
    PartialOrd,
    Eq,
    PartialEq,
    Hash,
}
#[verus_verify]
#[derive(Debug, Copy, Clone, Eq, PartialEq)]
enum ItemSourceKind {
    Struct,
    Enum,
}

#[verus_verify]
impl ItemSourceKind {
    fn self_of(self, field: &FieldEntry) -> TokenStream {
        let span = field.span();
        match self {
            ItemSourceKind::Struct => {
                let member = field.member();
                quote_spanned!(span=> (self.#member))
            }
            ItemSourceKind::Enum => {
                let ident = field.make_ident("_self");
                quote_spanned!(span=> (*#ident))
            }
        }
    }
    fn other_of(self, field: &FieldEntry) -> TokenStream {
        let span = field.span();
        match self {
            ItemSourceKind::Struct => {
                let member = field.member();
                quote_spanned!(span=> (other.#member))
            }
            ItemSourceKind::Enum => {
                let ident = field.make_ident("_other");
                quote_spanned!(span=> (*#ident))
            }
        }
    }
}

#[verus_verify]
pub struct HelperAttributeForCompareOp {
    ignore: Flag,
    reverse: Flag,
    by: Option<Expr>,
    key: Option<Template>,
    bounds: Bounds,
}
#[verus_verify]
impl HelperAttributeForCompareOp {
    fn push_bounds_to(&self, use_bounds: &mut bool, wcb: &mut WhereClauseBuilder) {
        if *use_bounds {
            *use_bounds = wcb.push_bounds(&self.bounds)
        }
    }
}
#[verus_verify]
impl WhereClauseBuilder {
    pub fn push_bounds(&mut self, bounds: &Bounds) -> bool {
        bounds.default
    }
}
#[verus_verify]
pub struct HelperAttributesForCompareOp {
    ord: HelperAttributeForCompareOp,
    partial_ord: HelperAttributeForCompareOp,
    eq: HelperAttributeForCompareOp,
    partial_eq: HelperAttributeForCompareOp,
    hash: HelperAttributeForCompareOp,
}
#[verus_verify]
impl HelperAttributesForCompareOp {
    #[verifier::external_body]
    fn bad_attr(&self) -> Option<(Msg, Span)> { unimplemented!() }
    #[verifier::external_body]
    fn is_ignore(&self, op: CompareOp) -> Result<bool> { unimplemented!() }
    #[verifier::external_body]
    fn is_reverse(&self, op: CompareOp) -> Result<bool> { unimplemented!() }
}
#[verus_verify]
#[verifier::external_body]
fn bad_attr<T>(op: CompareOp, bad: (Msg, Span), good: &[&str]) -> Result<T> {
    unimplemented!()
}

#[derive(Copy, Clone)]
#[verus_verify]
enum ItemSource<'a> {
    Struct {
        fields: &'a [FieldEntry<'a>],
    },
    Enum {
        variants: &'a [VariantEntry<'a>],
    },
}
#[verus_verify]
impl ItemSource<'_> {
    fn kind(&self) -> ItemSourceKind {
        match self {
            Self::Struct { .. } => ItemSourceKind::Struct,
            Self::Enum { .. } => ItemSourceKind::Enum,
        }
    }
}

#[verus_verify]
fn build_ord_body(
    source: ItemSource,
    use_bounds: bool,
    wcb: &mut WhereClauseBuilder,
) -> Result<TokenStream> {
    let op = CompareOp::Ord;
    let kind = DeriveItemKind::CompareOp(op);
    let build_from_fields = |fields: &[FieldEntry],
                             use_bounds: bool,
                             wcb: &mut WhereClauseBuilder|
     -> Result<TokenStream> {
        let mut body = TokenStream::new();
        for field in fields {
            if !(field.hattrs.cmp.is_ignore(op)?) {
            let mut field_used = false;
            let mut use_bounds = use_bounds;
            let mut expr =
                build_ord_expr(source.kind(), field, &mut field_used, &mut use_bounds, wcb)?;
            if field.hattrs.cmp.is_reverse(op)? {
                expr = quote!(::core::cmp::Ordering::reverse(#expr));
            }
            body.extend(quote! {
                match #expr {
                    ::core::cmp::Ordering::Equal => {}
                    o => return o,
                }
            });
            use_bounds = field
                .hattrs
                .push_bounds_to_without_helper(use_bounds, kind, wcb);
            if use_bounds && field_used {
                wcb.push_bounds_for_field(field.field);
            }
            }
        }
        Ok(quote! {
            #body
            ::core::cmp::Ordering::Equal
        })
    };

    let body = match source {
        ItemSource::Struct { fields, .. } => build_from_fields(fields, use_bounds, wcb)?,
        ItemSource::Enum { variants, .. } => {
            quote!()
        }
    };
    Ok(quote! {
        fn cmp(&self, other: &Self) -> ::core::cmp::Ordering {
            #body
        }
    })
}
#[verus_verify]
fn build_ord_expr(
    source: ItemSourceKind,
    field: &FieldEntry,
    field_used: &mut bool,
    use_bounds: &mut bool,
    wcb: &mut WhereClauseBuilder,
) -> Result<TokenStream> {
    let op = CompareOp::Ord;
    let ty = &field.field.ty;
    let fn_ident = field.make_ident("__ord_");
    let this = source.self_of(field);
    let other = source.other_of(field);
    let cmp = &field.hattrs.cmp;

    cmp.ord.push_bounds_to(use_bounds, wcb);
    if let Some(by) = &cmp.ord.by {
        return Ok(quote! {
            {
                fn #fn_ident(
                    this: &#ty,
                    other: &#ty,
                    cmp: impl Fn(&#ty, &#ty) -> ::core::cmp::Ordering)
                 -> ::core::cmp::Ordering {
                    cmp(this, other)
                }
                #fn_ident(&#this, &#other, #by)
            }
        });
    }
    if let Some(key) = &cmp.ord.key {
        return Ok(key.build_cmp_expr(this, other));
    }

    if let Some(bad) = cmp.bad_attr() {
        return bad_attr(op, bad, &["ord(key = ...)", "ord(by = ...)"]);
    }

    *field_used = true;
    Ok(quote_spanned!(field.span()=> ::core::cmp::Ord::cmp(&(#this), &(#other))))
}
fn main() {}

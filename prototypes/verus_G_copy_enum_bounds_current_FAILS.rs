#![feature(proc_macro_hygiene)]
#![allow(unused)]
use vstd::prelude::*;

verus! {
// ---------- prelude: opaque dependency types ----------
#[verifier::external_body] pub struct Type { _p: u8 }
#[verifier::external_body] pub struct WherePredicate { _p: u8 }
#[verifier::external_body] pub struct TokenStream { _p: u8 }
#[verifier::external_body] pub struct Ident { _p: u8 }
#[verifier::external_body] pub struct Path { _p: u8 }
#[verifier::external_body] pub struct Error { _p: u8 }
#[verifier::external_body] pub struct Generics { _p: u8 }
#[verifier::external_body] pub struct ImplGenerics { _p: u8 }
#[verifier::external_body] pub struct TypeGenerics { _p: u8 }
#[verifier::external_body] pub struct WhereClause { _p: u8 }
pub type Result<T> = core::result::Result<T, Error>;
impl Clone for Type { #[verifier::external_body] fn clone(&self) -> (r: Type) ensures r == *self { unimplemented!() } }
pub uninterp spec fn declared_preds(g: &Generics) -> Seq<WherePredicate>;
pub uninterp spec fn mentions(g: &Generics, ty: &Type) -> bool;
impl Generics {
    #[verifier::external_body] pub fn split_for_impl(&self) -> (ImplGenerics, TypeGenerics, Option<WhereClause>) { unimplemented!() }
}
pub struct Field { pub ty: Type }
pub struct ItemEnum { pub ident: Ident, pub generics: Generics }
#[verifier::external_body] #[verifier::reject_recursive_types(K)] #[verifier::reject_recursive_types(V)] pub struct HashMap<K, V> { _k: core::marker::PhantomData<(K, V)> }
impl<K, V> HashMap<K, V> {
    pub uninterp spec fn map(&self) -> Map<K, V>;
    #[verifier::external_body]
    pub fn get(&self, k: &K) -> (r: Option<&V>)
        ensures r == (if self.map().contains_key(*k) { Some(&self.map()[*k]) } else { None::<&V> })
    { unimplemented!() }
}
#[verifier::external_body] pub fn verif_quote() -> TokenStream { unimplemented!() }
#[verifier::external_body] pub fn verif_parse_quote<T>() -> T { unimplemented!() }

pub struct Bounds { pub ty: Vec<Type>, pub pred: Vec<WherePredicate>, pub default: bool }
pub struct WhereClauseBuilder { pub types: Vec<Type>, pub preds: Vec<WherePredicate>, pub gps: Ghost<Generics> }
impl WhereClauseBuilder {
    #[verifier::external_body]
    pub fn new(generics: &Generics) -> (r: Self) ensures r.types@ == Seq::<Type>::empty(), r.preds@ == declared_preds(generics), r.gps@ == *generics { unimplemented!() }
    #[verifier::external_body]
    pub fn push_bounds(&mut self, bounds: &Bounds) -> (r: bool)
        ensures final(self).types@ == old(self).types@ + bounds.ty@, final(self).preds@ == old(self).preds@ + bounds.pred@, r == bounds.default, final(self).gps == old(self).gps
    { unimplemented!() }
    #[verifier::external_body]
    pub fn push_bounds_for_field(&mut self, field: &Field)
        ensures final(self).preds@ == old(self).preds@, final(self).gps == old(self).gps,
            final(self).types@ == (if mentions(&old(self).gps@, &field.ty) { old(self).types@.push(field.ty) } else { old(self).types@ })
    { unimplemented!() }
    #[verifier::external_body]
    pub fn build<F: Fn(&Type) -> TokenStream>(self, f: F) -> TokenStream { unimplemented!() }
}

// ---------- reference (documented 9-level walk, levels 2,3 / 5,6 / 8,9 for Copy) ----------
pub struct St { pub types: Seq<Type>, pub preds: Seq<WherePredicate>, pub go: bool }
pub open spec fn step(s: St, b: &Bounds) -> St {
    if s.go { St { types: s.types + b.ty@, preds: s.preds + b.pred@, go: b.default } } else { s }
}
pub open spec fn entry_phase(s: St, e: &DeriveEntry) -> St { step(step(s, &e.bounds_this), &e.bounds_common) }
pub open spec fn items_phase(s: St, h: &HelperAttributes, kind: DeriveItemKind) -> St {
    if s.go && h.items.map().contains_key(kind) { entry_phase(s, &h.items.map()[kind]) } else { s }
}
pub open spec fn field_phase(s: St, go: bool, g: &Generics, f: &FieldEntry, kind: DeriveItemKind) -> St {
    let s1 = items_phase(St { go, ..s }, &f.hattrs, kind);
    if s1.go && mentions(g, &f.field.ty) { St { types: s1.types.push(f.field.ty), ..s1 } } else { s1 }
}
pub open spec fn fields_phase(s: St, go: bool, g: &Generics, fs: Seq<FieldEntry>, n: int, kind: DeriveItemKind) -> St
    decreases n
{
    if n <= 0 { s } else { field_phase(fields_phase(s, go, g, fs, n - 1, kind), go, g, &fs[n - 1], kind) }
}
pub open spec fn variant_phase(s: St, go: bool, g: &Generics, v: &VariantEntry, kind: DeriveItemKind) -> St {
    let s1 = items_phase(St { go, ..s }, &v.hattrs, kind);      // levels 5,6
    fields_phase(s1, s1.go, g, v.fields@, v.fields@.len() as int, kind)
}
pub open spec fn variants_phase(s: St, go: bool, g: &Generics, vs: Seq<VariantEntry>, n: int, kind: DeriveItemKind) -> St
    decreases n
{
    if n <= 0 { s } else { variant_phase(variants_phase(s, go, g, vs, n - 1, kind), go, g, &vs[n - 1], kind) }
}
pub open spec fn expected_copy_enum(item: &ItemEnum, e: &DeriveEntry, vs: Seq<VariantEntry>) -> St {
    let s1 = entry_phase(St { types: Seq::empty(), preds: declared_preds(&item.generics), go: true }, e);
    variants_phase(s1, s1.go, &item.generics, vs, vs.len() as int, DeriveItemKind::Copy)
}
pub open spec fn same(w: &WhereClauseBuilder, s: St) -> bool { w.types@ =~= s.types && w.preds@ =~= s.preds }
}
macro_rules! quote { ($($arg:tt)*) => { verif_quote() }; }
macro_rules! parse_quote { ($($arg:tt)*) => { verif_parse_quote() }; }

// ---------- extracted ----------
#[verus_verify]
#[derive(Copy, Clone, Eq, PartialEq)]
pub enum DeriveItemKind { Copy, Clone, Debug }
#[verus_verify]
impl DeriveItemKind {
    #[verifier::external_body]
    fn to_path(self) -> Path { unimplemented!() }
}
#[verus_verify]
pub struct DeriveEntry {
    pub kind: DeriveItemKind,
    pub dump: bool,
    pub bounds_this: Bounds,
    pub bounds_common: Bounds,
}
#[verus_verify]
impl DeriveEntry {
    #[verus_spec(r => ensures same(final(wcb), entry_phase(St { types: old(wcb).types@, preds: old(wcb).preds@, go: true }, self)),
        r == entry_phase(St { types: old(wcb).types@, preds: old(wcb).preds@, go: true }, self).go, final(wcb).gps == old(wcb).gps)]
    fn push_bounds_to(&self, wcb: &mut WhereClauseBuilder) -> bool {
        let mut use_bounds = wcb.push_bounds(&self.bounds_this);
        if use_bounds {
            use_bounds = wcb.push_bounds(&self.bounds_common);
        }
        use_bounds
    }
}
#[verus_verify]
pub struct HelperAttributes {
    pub items: HashMap<DeriveItemKind, DeriveEntry>,
}
#[verus_verify]
impl HelperAttributes {
    #[verus_spec(r => requires kind is Copy || kind is Clone, ensures same(final(wcb), items_phase(St { types: old(wcb).types@, preds: old(wcb).preds@, go: use_bounds }, self, kind)),
        r == items_phase(St { types: old(wcb).types@, preds: old(wcb).preds@, go: use_bounds }, self, kind).go, final(wcb).gps == old(wcb).gps)]
    fn push_bounds_to(
        &self,
        use_bounds: bool,
        kind: DeriveItemKind,
        wcb: &mut WhereClauseBuilder,
    ) -> bool {
        self.push_bounds_to_raw(use_bounds, true, kind, wcb)
    }
    #[verus_spec(r => requires kind is Copy || kind is Clone,
        ensures same(final(wcb), items_phase(St { types: old(wcb).types@, preds: old(wcb).preds@, go: use_bounds }, self, kind)),
        r == items_phase(St { types: old(wcb).types@, preds: old(wcb).preds@, go: use_bounds }, self, kind).go, final(wcb).gps == old(wcb).gps)]
    fn push_bounds_to_raw(
        &self,
        mut use_bounds: bool,
        use_helper: bool,
        kind: DeriveItemKind,
        wcb: &mut WhereClauseBuilder,
    ) -> bool {
        if use_bounds {
            if let Some(a) = self.items.get(&kind) {
                use_bounds = a.push_bounds_to(wcb);
            }
        }
        use_bounds
    }
}
#[verus_verify]
pub struct FieldEntry<'a> {
    pub index: usize,
    pub field: &'a Field,
    pub hattrs: HelperAttributes,
}
#[verus_verify]
impl<'a> FieldEntry<'a> {
    #[verus_spec(requires kind is Copy || kind is Clone,
        ensures same(final(wcb), field_phase(St { types: old(wcb).types@, preds: old(wcb).preds@, go: use_bounds }, use_bounds, &old(wcb).gps@, self, kind)),
        final(wcb).gps == old(wcb).gps)]
    fn push_bounds_to(&self, use_bounds: bool, kind: DeriveItemKind, wcb: &mut WhereClauseBuilder) {
        if self.hattrs.push_bounds_to(use_bounds, kind, wcb) {
            wcb.push_bounds_for_field(self.field)
        }
    }
}
#[verus_verify]
pub struct VariantEntry<'a> {
    pub fields: Vec<FieldEntry<'a>>,
    pub hattrs: HelperAttributes,
}

#[verus_verify]
#[verus_spec(r => ensures true)]
fn build_copy_for_enum(
    item: &ItemEnum,
    e: &DeriveEntry,
    variants: &[VariantEntry],
    wcb_out: &mut WhereClauseBuilder,
) -> Result<TokenStream> {
    let kind = DeriveItemKind::Copy;
    let (impl_g, type_g, _) = item.generics.split_for_impl();
    let this_ty_ident = &item.ident;
    let this_ty: Type = parse_quote!(#this_ty_ident #type_g);
    let trait_ = kind.to_path();

    let mut wcb = WhereClauseBuilder::new(&item.generics);
    let use_bounds = e.push_bounds_to(&mut wcb);
    #[verus_spec(vi => invariant
        wcb.gps@ == item.generics, kind is Copy,
        vi.seq().len() == variants@.len(),
        forall|i: int| 0 <= i < variants@.len() ==> *vi.seq()[i] == variants@[i],
        0 <= vi.index@ <= variants@.len(),
        same(&wcb, variants_phase(entry_phase(St { types: Seq::empty(), preds: declared_preds(&item.generics), go: true }, e), use_bounds, &item.generics, variants@, vi.index@, kind)),
    )]
    for variant in variants {
        #[verus_spec(fi => invariant
            wcb.gps@ == item.generics, kind is Copy, kind is Copy,
            fi.seq().len() == variant.fields@.len(),
            forall|i: int| 0 <= i < variant.fields@.len() ==> *fi.seq()[i] == variant.fields@[i],
            0 <= fi.index@ <= variant.fields@.len(),
            same(&wcb, fields_phase(St { go: use_bounds, ..(variants_phase(entry_phase(St { types: Seq::empty(), preds: declared_preds(&item.generics), go: true }, e), use_bounds, &item.generics, variants@, vi.index@ as int, kind)) }, use_bounds, &item.generics, variant.fields@, fi.index@, kind)),
        )]
        for field in &variant.fields {
            field.push_bounds_to(use_bounds, kind, &mut wcb);
        }
    }
    proof! { assert(same(&wcb, expected_copy_enum(item, e, variants@))); }
    let wheres = wcb.build(|ty| quote!(#ty : #trait_));
    Ok(quote! {
        #[automatically_derived]
        impl #impl_g #trait_ for #this_ty #wheres {}
    })
}
fn main() {}

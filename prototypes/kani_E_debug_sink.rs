#![allow(unused)]
use derive_ex::derive_ex;
use core::fmt::{self, Write, Debug};

#[derive_ex(Debug)]
pub struct X { a: u8, #[debug(ignore)] b: u8, c: bool }
#[derive(Debug)]
pub struct XT { a: u8, c: bool }
impl fmt::Debug for Wrap { fn fmt(&self, f: &mut fmt::Formatter) -> fmt::Result { f.debug_struct("X").field("a", &self.0.a).field("c", &self.0.c).finish() } }
pub struct Wrap(XT);

pub struct Sink { buf: [u8; 64], len: usize }
impl Write for Sink {
    fn write_str(&mut self, s: &str) -> fmt::Result {
        let b = s.as_bytes();
        let mut i = 0;
        while i < b.len() { if self.len < 64 { self.buf[self.len] = b[i]; self.len += 1; } i += 1; }
        Ok(())
    }
}

#[cfg(kani)]
mod proofs {
    use super::*;
    #[kani::proof]
    #[kani::unwind(70)]
    fn debug_eq() {
        let a: u8 = kani::any(); let c: bool = kani::any();
        let x = X { a, b: kani::any(), c };
        let t = Wrap(XT { a, c });
        let mut s1 = Sink { buf: [0; 64], len: 0 };
        let mut s2 = Sink { buf: [0; 64], len: 0 };
        let _ = write!(s1, "{:?}", x);
        let _ = write!(s2, "{:?}", t);
        assert!(s1.len == s2.len);
        assert!(s1.buf == s2.buf);
    }
}

#![allow(unused)]
use derive_ex::derive_ex;
use core::cmp::Ordering;
fn k1(a:&u8)->u8{*a&3} fn k2(a:&u8)->u8{*a>>4}
#[derive_ex(Ord, PartialOrd, Eq, PartialEq)] #[derive(Clone,Copy)] pub struct S1( u8,  u8);
fn spec1(x:&S1,y:&S1)->Ordering{ Ordering::Equal.then(x.0.cmp(&y.0)).then(x.1.cmp(&y.1)) }
#[cfg_attr(kani, kani::ensures(|r: &Ordering| *r == spec1(x, y)))] pub fn cmp1(x:&S1,y:&S1)->Ordering{ Ord::cmp(x,y) }
#[cfg_attr(kani, kani::ensures(|r: &bool| *r == (spec1(x, y)==Ordering::Equal)))] pub fn eq1(x:&S1,y:&S1)->bool{ PartialEq::eq(x,y) }
#[derive_ex(Ord, PartialOrd, Eq, PartialEq)] #[derive(Clone,Copy)] pub struct S2( u8, #[ord(reverse)] u8);
fn spec2(x:&S2,y:&S2)->Ordering{ Ordering::Equal.then(x.0.cmp(&y.0)).then(x.1.cmp(&y.1).reverse()) }
#[cfg_attr(kani, kani::ensures(|r: &Ordering| *r == spec2(x, y)))] pub fn cmp2(x:&S2,y:&S2)->Ordering{ Ord::cmp(x,y) }
#[cfg_attr(kani, kani::ensures(|r: &bool| *r == (spec2(x, y)==Ordering::Equal)))] pub fn eq2(x:&S2,y:&S2)->bool{ PartialEq::eq(x,y) }
#[derive_ex(Ord, PartialOrd, Eq, PartialEq)] #[derive(Clone,Copy)] pub struct S3( u8, #[ord(key = k1(&$))] u8);
fn spec3(x:&S3,y:&S3)->Ordering{ Ordering::Equal.then(x.0.cmp(&y.0)).then(k1(&x.1).cmp(&k1(&y.1))) }
#[cfg_attr(kani, kani::ensures(|r: &Ordering| *r == spec3(x, y)))] pub fn cmp3(x:&S3,y:&S3)->Ordering{ Ord::cmp(x,y) }
#[cfg_attr(kani, kani::ensures(|r: &bool| *r == (spec3(x, y)==Ordering::Equal)))] pub fn eq3(x:&S3,y:&S3)->bool{ PartialEq::eq(x,y) }
#[derive_ex(Ord, PartialOrd, Eq, PartialEq)] #[derive(Clone,Copy)] pub struct S4( u8, #[ord(key = k2(&$), reverse)] u8);
fn spec4(x:&S4,y:&S4)->Ordering{ Ordering::Equal.then(x.0.cmp(&y.0)).then(k2(&x.1).cmp(&k2(&y.1)).reverse()) }
#[cfg_attr(kani, kani::ensures(|r: &Ordering| *r == spec4(x, y)))] pub fn cmp4(x:&S4,y:&S4)->Ordering{ Ord::cmp(x,y) }
#[cfg_attr(kani, kani::ensures(|r: &bool| *r == (spec4(x, y)==Ordering::Equal)))] pub fn eq4(x:&S4,y:&S4)->bool{ PartialEq::eq(x,y) }
#[derive_ex(Ord, PartialOrd, Eq, PartialEq)] #[derive(Clone,Copy)] pub struct S5( u8, #[ord(ignore)] u8);
fn spec5(x:&S5,y:&S5)->Ordering{ Ordering::Equal.then(x.0.cmp(&y.0)) }
#[cfg_attr(kani, kani::ensures(|r: &Ordering| *r == spec5(x, y)))] pub fn cmp5(x:&S5,y:&S5)->Ordering{ Ord::cmp(x,y) }
#[cfg_attr(kani, kani::ensures(|r: &bool| *r == (spec5(x, y)==Ordering::Equal)))] pub fn eq5(x:&S5,y:&S5)->bool{ PartialEq::eq(x,y) }
#[derive_ex(Ord, PartialOrd, Eq, PartialEq)] #[derive(Clone,Copy)] pub struct S6(#[ord(reverse)] u8,  u8);
fn spec6(x:&S6,y:&S6)->Ordering{ Ordering::Equal.then(x.0.cmp(&y.0).reverse()).then(x.1.cmp(&y.1)) }
#[cfg_attr(kani, kani::ensures(|r: &Ordering| *r == spec6(x, y)))] pub fn cmp6(x:&S6,y:&S6)->Ordering{ Ord::cmp(x,y) }
#[cfg_attr(kani, kani::ensures(|r: &bool| *r == (spec6(x, y)==Ordering::Equal)))] pub fn eq6(x:&S6,y:&S6)->bool{ PartialEq::eq(x,y) }
#[derive_ex(Ord, PartialOrd, Eq, PartialEq)] #[derive(Clone,Copy)] pub struct S7(#[ord(reverse)] u8, #[ord(reverse)] u8);
fn spec7(x:&S7,y:&S7)->Ordering{ Ordering::Equal.then(x.0.cmp(&y.0).reverse()).then(x.1.cmp(&y.1).reverse()) }
#[cfg_attr(kani, kani::ensures(|r: &Ordering| *r == spec7(x, y)))] pub fn cmp7(x:&S7,y:&S7)->Ordering{ Ord::cmp(x,y) }
#[cfg_attr(kani, kani::ensures(|r: &bool| *r == (spec7(x, y)==Ordering::Equal)))] pub fn eq7(x:&S7,y:&S7)->bool{ PartialEq::eq(x,y) }
#[derive_ex(Ord, PartialOrd, Eq, PartialEq)] #[derive(Clone,Copy)] pub struct S8(#[ord(reverse)] u8, #[ord(key = k1(&$))] u8);
fn spec8(x:&S8,y:&S8)->Ordering{ Ordering::Equal.then(x.0.cmp(&y.0).reverse()).then(k1(&x.1).cmp(&k1(&y.1))) }
#[cfg_attr(kani, kani::ensures(|r: &Ordering| *r == spec8(x, y)))] pub fn cmp8(x:&S8,y:&S8)->Ordering{ Ord::cmp(x,y) }
#[cfg_attr(kani, kani::ensures(|r: &bool| *r == (spec8(x, y)==Ordering::Equal)))] pub fn eq8(x:&S8,y:&S8)->bool{ PartialEq::eq(x,y) }
#[derive_ex(Ord, PartialOrd, Eq, PartialEq)] #[derive(Clone,Copy)] pub struct S9(#[ord(reverse)] u8, #[ord(key = k2(&$), reverse)] u8);
fn spec9(x:&S9,y:&S9)->Ordering{ Ordering::Equal.then(x.0.cmp(&y.0).reverse()).then(k2(&x.1).cmp(&k2(&y.1)).reverse()) }
#[cfg_attr(kani, kani::ensures(|r: &Ordering| *r == spec9(x, y)))] pub fn cmp9(x:&S9,y:&S9)->Ordering{ Ord::cmp(x,y) }
#[cfg_attr(kani, kani::ensures(|r: &bool| *r == (spec9(x, y)==Ordering::Equal)))] pub fn eq9(x:&S9,y:&S9)->bool{ PartialEq::eq(x,y) }
#[derive_ex(Ord, PartialOrd, Eq, PartialEq)] #[derive(Clone,Copy)] pub struct S10(#[ord(reverse)] u8, #[ord(ignore)] u8);
fn spec10(x:&S10,y:&S10)->Ordering{ Ordering::Equal.then(x.0.cmp(&y.0).reverse()) }
#[cfg_attr(kani, kani::ensures(|r: &Ordering| *r == spec10(x, y)))] pub fn cmp10(x:&S10,y:&S10)->Ordering{ Ord::cmp(x,y) }
#[cfg_attr(kani, kani::ensures(|r: &bool| *r == (spec10(x, y)==Ordering::Equal)))] pub fn eq10(x:&S10,y:&S10)->bool{ PartialEq::eq(x,y) }
#[derive_ex(Ord, PartialOrd, Eq, PartialEq)] #[derive(Clone,Copy)] pub struct S11(#[ord(key = k1(&$))] u8,  u8);
fn spec11(x:&S11,y:&S11)->Ordering{ Ordering::Equal.then(k1(&x.0).cmp(&k1(&y.0))).then(x.1.cmp(&y.1)) }
#[cfg_attr(kani, kani::ensures(|r: &Ordering| *r == spec11(x, y)))] pub fn cmp11(x:&S11,y:&S11)->Ordering{ Ord::cmp(x,y) }
#[cfg_attr(kani, kani::ensures(|r: &bool| *r == (spec11(x, y)==Ordering::Equal)))] pub fn eq11(x:&S11,y:&S11)->bool{ PartialEq::eq(x,y) }
#[derive_ex(Ord, PartialOrd, Eq, PartialEq)] #[derive(Clone,Copy)] pub struct S12(#[ord(key = k1(&$))] u8, #[ord(reverse)] u8);
fn spec12(x:&S12,y:&S12)->Ordering{ Ordering::Equal.then(k1(&x.0).cmp(&k1(&y.0))).then(x.1.cmp(&y.1).reverse()) }
#[cfg_attr(kani, kani::ensures(|r: &Ordering| *r == spec12(x, y)))] pub fn cmp12(x:&S12,y:&S12)->Ordering{ Ord::cmp(x,y) }
#[cfg_attr(kani, kani::ensures(|r: &bool| *r == (spec12(x, y)==Ordering::Equal)))] pub fn eq12(x:&S12,y:&S12)->bool{ PartialEq::eq(x,y) }
#[derive_ex(Ord, PartialOrd, Eq, PartialEq)] #[derive(Clone,Copy)] pub struct S13(#[ord(key = k1(&$))] u8, #[ord(key = k1(&$))] u8);
fn spec13(x:&S13,y:&S13)->Ordering{ Ordering::Equal.then(k1(&x.0).cmp(&k1(&y.0))).then(k1(&x.1).cmp(&k1(&y.1))) }
#[cfg_attr(kani, kani::ensures(|r: &Ordering| *r == spec13(x, y)))] pub fn cmp13(x:&S13,y:&S13)->Ordering{ Ord::cmp(x,y) }
#[cfg_attr(kani, kani::ensures(|r: &bool| *r == (spec13(x, y)==Ordering::Equal)))] pub fn eq13(x:&S13,y:&S13)->bool{ PartialEq::eq(x,y) }
#[derive_ex(Ord, PartialOrd, Eq, PartialEq)] #[derive(Clone,Copy)] pub struct S14(#[ord(key = k1(&$))] u8, #[ord(key = k2(&$), reverse)] u8);
fn spec14(x:&S14,y:&S14)->Ordering{ Ordering::Equal.then(k1(&x.0).cmp(&k1(&y.0))).then(k2(&x.1).cmp(&k2(&y.1)).reverse()) }
#[cfg_attr(kani, kani::ensures(|r: &Ordering| *r == spec14(x, y)))] pub fn cmp14(x:&S14,y:&S14)->Ordering{ Ord::cmp(x,y) }
#[cfg_attr(kani, kani::ensures(|r: &bool| *r == (spec14(x, y)==Ordering::Equal)))] pub fn eq14(x:&S14,y:&S14)->bool{ PartialEq::eq(x,y) }
#[derive_ex(Ord, PartialOrd, Eq, PartialEq)] #[derive(Clone,Copy)] pub struct S15(#[ord(key = k1(&$))] u8, #[ord(ignore)] u8);
fn spec15(x:&S15,y:&S15)->Ordering{ Ordering::Equal.then(k1(&x.0).cmp(&k1(&y.0))) }
#[cfg_attr(kani, kani::ensures(|r: &Ordering| *r == spec15(x, y)))] pub fn cmp15(x:&S15,y:&S15)->Ordering{ Ord::cmp(x,y) }
#[cfg_attr(kani, kani::ensures(|r: &bool| *r == (spec15(x, y)==Ordering::Equal)))] pub fn eq15(x:&S15,y:&S15)->bool{ PartialEq::eq(x,y) }
#[derive_ex(Ord, PartialOrd, Eq, PartialEq)] #[derive(Clone,Copy)] pub struct S16(#[ord(key = k2(&$), reverse)] u8,  u8);
fn spec16(x:&S16,y:&S16)->Ordering{ Ordering::Equal.then(k2(&x.0).cmp(&k2(&y.0)).reverse()).then(x.1.cmp(&y.1)) }
#[cfg_attr(kani, kani::ensures(|r: &Ordering| *r == spec16(x, y)))] pub fn cmp16(x:&S16,y:&S16)->Ordering{ Ord::cmp(x,y) }
#[cfg_attr(kani, kani::ensures(|r: &bool| *r == (spec16(x, y)==Ordering::Equal)))] pub fn eq16(x:&S16,y:&S16)->bool{ PartialEq::eq(x,y) }
#[derive_ex(Ord, PartialOrd, Eq, PartialEq)] #[derive(Clone,Copy)] pub struct S17(#[ord(key = k2(&$), reverse)] u8, #[ord(reverse)] u8);
fn spec17(x:&S17,y:&S17)->Ordering{ Ordering::Equal.then(k2(&x.0).cmp(&k2(&y.0)).reverse()).then(x.1.cmp(&y.1).reverse()) }
#[cfg_attr(kani, kani::ensures(|r: &Ordering| *r == spec17(x, y)))] pub fn cmp17(x:&S17,y:&S17)->Ordering{ Ord::cmp(x,y) }
#[cfg_attr(kani, kani::ensures(|r: &bool| *r == (spec17(x, y)==Ordering::Equal)))] pub fn eq17(x:&S17,y:&S17)->bool{ PartialEq::eq(x,y) }
#[derive_ex(Ord, PartialOrd, Eq, PartialEq)] #[derive(Clone,Copy)] pub struct S18(#[ord(key = k2(&$), reverse)] u8, #[ord(key = k1(&$))] u8);
fn spec18(x:&S18,y:&S18)->Ordering{ Ordering::Equal.then(k2(&x.0).cmp(&k2(&y.0)).reverse()).then(k1(&x.1).cmp(&k1(&y.1))) }
#[cfg_attr(kani, kani::ensures(|r: &Ordering| *r == spec18(x, y)))] pub fn cmp18(x:&S18,y:&S18)->Ordering{ Ord::cmp(x,y) }
#[cfg_attr(kani, kani::ensures(|r: &bool| *r == (spec18(x, y)==Ordering::Equal)))] pub fn eq18(x:&S18,y:&S18)->bool{ PartialEq::eq(x,y) }
#[derive_ex(Ord, PartialOrd, Eq, PartialEq)] #[derive(Clone,Copy)] pub struct S19(#[ord(key = k2(&$), reverse)] u8, #[ord(key = k2(&$), reverse)] u8);
fn spec19(x:&S19,y:&S19)->Ordering{ Ordering::Equal.then(k2(&x.0).cmp(&k2(&y.0)).reverse()).then(k2(&x.1).cmp(&k2(&y.1)).reverse()) }
#[cfg_attr(kani, kani::ensures(|r: &Ordering| *r == spec19(x, y)))] pub fn cmp19(x:&S19,y:&S19)->Ordering{ Ord::cmp(x,y) }
#[cfg_attr(kani, kani::ensures(|r: &bool| *r == (spec19(x, y)==Ordering::Equal)))] pub fn eq19(x:&S19,y:&S19)->bool{ PartialEq::eq(x,y) }
#[derive_ex(Ord, PartialOrd, Eq, PartialEq)] #[derive(Clone,Copy)] pub struct S20(#[ord(key = k2(&$), reverse)] u8, #[ord(ignore)] u8);
fn spec20(x:&S20,y:&S20)->Ordering{ Ordering::Equal.then(k2(&x.0).cmp(&k2(&y.0)).reverse()) }
#[cfg_attr(kani, kani::ensures(|r: &Ordering| *r == spec20(x, y)))] pub fn cmp20(x:&S20,y:&S20)->Ordering{ Ord::cmp(x,y) }
#[cfg_attr(kani, kani::ensures(|r: &bool| *r == (spec20(x, y)==Ordering::Equal)))] pub fn eq20(x:&S20,y:&S20)->bool{ PartialEq::eq(x,y) }
#[derive_ex(Ord, PartialOrd, Eq, PartialEq)] #[derive(Clone,Copy)] pub struct S21(#[ord(ignore)] u8,  u8);
fn spec21(x:&S21,y:&S21)->Ordering{ Ordering::Equal.then(x.1.cmp(&y.1)) }
#[cfg_attr(kani, kani::ensures(|r: &Ordering| *r == spec21(x, y)))] pub fn cmp21(x:&S21,y:&S21)->Ordering{ Ord::cmp(x,y) }
#[cfg_attr(kani, kani::ensures(|r: &bool| *r == (spec21(x, y)==Ordering::Equal)))] pub fn eq21(x:&S21,y:&S21)->bool{ PartialEq::eq(x,y) }
#[derive_ex(Ord, PartialOrd, Eq, PartialEq)] #[derive(Clone,Copy)] pub struct S22(#[ord(ignore)] u8, #[ord(reverse)] u8);
fn spec22(x:&S22,y:&S22)->Ordering{ Ordering::Equal.then(x.1.cmp(&y.1).reverse()) }
#[cfg_attr(kani, kani::ensures(|r: &Ordering| *r == spec22(x, y)))] pub fn cmp22(x:&S22,y:&S22)->Ordering{ Ord::cmp(x,y) }
#[cfg_attr(kani, kani::ensures(|r: &bool| *r == (spec22(x, y)==Ordering::Equal)))] pub fn eq22(x:&S22,y:&S22)->bool{ PartialEq::eq(x,y) }
#[derive_ex(Ord, PartialOrd, Eq, PartialEq)] #[derive(Clone,Copy)] pub struct S23(#[ord(ignore)] u8, #[ord(key = k1(&$))] u8);
fn spec23(x:&S23,y:&S23)->Ordering{ Ordering::Equal.then(k1(&x.1).cmp(&k1(&y.1))) }
#[cfg_attr(kani, kani::ensures(|r: &Ordering| *r == spec23(x, y)))] pub fn cmp23(x:&S23,y:&S23)->Ordering{ Ord::cmp(x,y) }
#[cfg_attr(kani, kani::ensures(|r: &bool| *r == (spec23(x, y)==Ordering::Equal)))] pub fn eq23(x:&S23,y:&S23)->bool{ PartialEq::eq(x,y) }
#[derive_ex(Ord, PartialOrd, Eq, PartialEq)] #[derive(Clone,Copy)] pub struct S24(#[ord(ignore)] u8, #[ord(key = k2(&$), reverse)] u8);
fn spec24(x:&S24,y:&S24)->Ordering{ Ordering::Equal.then(k2(&x.1).cmp(&k2(&y.1)).reverse()) }
#[cfg_attr(kani, kani::ensures(|r: &Ordering| *r == spec24(x, y)))] pub fn cmp24(x:&S24,y:&S24)->Ordering{ Ord::cmp(x,y) }
#[cfg_attr(kani, kani::ensures(|r: &bool| *r == (spec24(x, y)==Ordering::Equal)))] pub fn eq24(x:&S24,y:&S24)->bool{ PartialEq::eq(x,y) }
#[derive_ex(Ord, PartialOrd, Eq, PartialEq)] #[derive(Clone,Copy)] pub struct S25(#[ord(ignore)] u8, #[ord(ignore)] u8);
fn spec25(x:&S25,y:&S25)->Ordering{ Ordering::Equal }
#[cfg_attr(kani, kani::ensures(|r: &Ordering| *r == spec25(x, y)))] pub fn cmp25(x:&S25,y:&S25)->Ordering{ Ord::cmp(x,y) }
#[cfg_attr(kani, kani::ensures(|r: &bool| *r == (spec25(x, y)==Ordering::Equal)))] pub fn eq25(x:&S25,y:&S25)->bool{ PartialEq::eq(x,y) }
#[cfg(kani)] mod proofs { use super::*;
#[kani::proof_for_contract(cmp1)] fn c_cmp1(){ let x=S1(kani::any(),kani::any()); let y=S1(kani::any(),kani::any()); cmp1(&x,&y); }
#[kani::proof_for_contract(eq1)] fn c_eq1(){ let x=S1(kani::any(),kani::any()); let y=S1(kani::any(),kani::any()); eq1(&x,&y); }
#[kani::proof_for_contract(cmp2)] fn c_cmp2(){ let x=S2(kani::any(),kani::any()); let y=S2(kani::any(),kani::any()); cmp2(&x,&y); }
#[kani::proof_for_contract(eq2)] fn c_eq2(){ let x=S2(kani::any(),kani::any()); let y=S2(kani::any(),kani::any()); eq2(&x,&y); }
#[kani::proof_for_contract(cmp3)] fn c_cmp3(){ let x=S3(kani::any(),kani::any()); let y=S3(kani::any(),kani::any()); cmp3(&x,&y); }
#[kani::proof_for_contract(eq3)] fn c_eq3(){ let x=S3(kani::any(),kani::any()); let y=S3(kani::any(),kani::any()); eq3(&x,&y); }
#[kani::proof_for_contract(cmp4)] fn c_cmp4(){ let x=S4(kani::any(),kani::any()); let y=S4(kani::any(),kani::any()); cmp4(&x,&y); }
#[kani::proof_for_contract(eq4)] fn c_eq4(){ let x=S4(kani::any(),kani::any()); let y=S4(kani::any(),kani::any()); eq4(&x,&y); }
#[kani::proof_for_contract(cmp5)] fn c_cmp5(){ let x=S5(kani::any(),kani::any()); let y=S5(kani::any(),kani::any()); cmp5(&x,&y); }
#[kani::proof_for_contract(eq5)] fn c_eq5(){ let x=S5(kani::any(),kani::any()); let y=S5(kani::any(),kani::any()); eq5(&x,&y); }
#[kani::proof_for_contract(cmp6)] fn c_cmp6(){ let x=S6(kani::any(),kani::any()); let y=S6(kani::any(),kani::any()); cmp6(&x,&y); }
#[kani::proof_for_contract(eq6)] fn c_eq6(){ let x=S6(kani::any(),kani::any()); let y=S6(kani::any(),kani::any()); eq6(&x,&y); }
#[kani::proof_for_contract(cmp7)] fn c_cmp7(){ let x=S7(kani::any(),kani::any()); let y=S7(kani::any(),kani::any()); cmp7(&x,&y); }
#[kani::proof_for_contract(eq7)] fn c_eq7(){ let x=S7(kani::any(),kani::any()); let y=S7(kani::any(),kani::any()); eq7(&x,&y); }
#[kani::proof_for_contract(cmp8)] fn c_cmp8(){ let x=S8(kani::any(),kani::any()); let y=S8(kani::any(),kani::any()); cmp8(&x,&y); }
#[kani::proof_for_contract(eq8)] fn c_eq8(){ let x=S8(kani::any(),kani::any()); let y=S8(kani::any(),kani::any()); eq8(&x,&y); }
#[kani::proof_for_contract(cmp9)] fn c_cmp9(){ let x=S9(kani::any(),kani::any()); let y=S9(kani::any(),kani::any()); cmp9(&x,&y); }
#[kani::proof_for_contract(eq9)] fn c_eq9(){ let x=S9(kani::any(),kani::any()); let y=S9(kani::any(),kani::any()); eq9(&x,&y); }
#[kani::proof_for_contract(cmp10)] fn c_cmp10(){ let x=S10(kani::any(),kani::any()); let y=S10(kani::any(),kani::any()); cmp10(&x,&y); }
#[kani::proof_for_contract(eq10)] fn c_eq10(){ let x=S10(kani::any(),kani::any()); let y=S10(kani::any(),kani::any()); eq10(&x,&y); }
#[kani::proof_for_contract(cmp11)] fn c_cmp11(){ let x=S11(kani::any(),kani::any()); let y=S11(kani::any(),kani::any()); cmp11(&x,&y); }
#[kani::proof_for_contract(eq11)] fn c_eq11(){ let x=S11(kani::any(),kani::any()); let y=S11(kani::any(),kani::any()); eq11(&x,&y); }
#[kani::proof_for_contract(cmp12)] fn c_cmp12(){ let x=S12(kani::any(),kani::any()); let y=S12(kani::any(),kani::any()); cmp12(&x,&y); }
#[kani::proof_for_contract(eq12)] fn c_eq12(){ let x=S12(kani::any(),kani::any()); let y=S12(kani::any(),kani::any()); eq12(&x,&y); }
#[kani::proof_for_contract(cmp13)] fn c_cmp13(){ let x=S13(kani::any(),kani::any()); let y=S13(kani::any(),kani::any()); cmp13(&x,&y); }
#[kani::proof_for_contract(eq13)] fn c_eq13(){ let x=S13(kani::any(),kani::any()); let y=S13(kani::any(),kani::any()); eq13(&x,&y); }
#[kani::proof_for_contract(cmp14)] fn c_cmp14(){ let x=S14(kani::any(),kani::any()); let y=S14(kani::any(),kani::any()); cmp14(&x,&y); }
#[kani::proof_for_contract(eq14)] fn c_eq14(){ let x=S14(kani::any(),kani::any()); let y=S14(kani::any(),kani::any()); eq14(&x,&y); }
#[kani::proof_for_contract(cmp15)] fn c_cmp15(){ let x=S15(kani::any(),kani::any()); let y=S15(kani::any(),kani::any()); cmp15(&x,&y); }
#[kani::proof_for_contract(eq15)] fn c_eq15(){ let x=S15(kani::any(),kani::any()); let y=S15(kani::any(),kani::any()); eq15(&x,&y); }
#[kani::proof_for_contract(cmp16)] fn c_cmp16(){ let x=S16(kani::any(),kani::any()); let y=S16(kani::any(),kani::any()); cmp16(&x,&y); }
#[kani::proof_for_contract(eq16)] fn c_eq16(){ let x=S16(kani::any(),kani::any()); let y=S16(kani::any(),kani::any()); eq16(&x,&y); }
#[kani::proof_for_contract(cmp17)] fn c_cmp17(){ let x=S17(kani::any(),kani::any()); let y=S17(kani::any(),kani::any()); cmp17(&x,&y); }
#[kani::proof_for_contract(eq17)] fn c_eq17(){ let x=S17(kani::any(),kani::any()); let y=S17(kani::any(),kani::any()); eq17(&x,&y); }
#[kani::proof_for_contract(cmp18)] fn c_cmp18(){ let x=S18(kani::any(),kani::any()); let y=S18(kani::any(),kani::any()); cmp18(&x,&y); }
#[kani::proof_for_contract(eq18)] fn c_eq18(){ let x=S18(kani::any(),kani::any()); let y=S18(kani::any(),kani::any()); eq18(&x,&y); }
#[kani::proof_for_contract(cmp19)] fn c_cmp19(){ let x=S19(kani::any(),kani::any()); let y=S19(kani::any(),kani::any()); cmp19(&x,&y); }
#[kani::proof_for_contract(eq19)] fn c_eq19(){ let x=S19(kani::any(),kani::any()); let y=S19(kani::any(),kani::any()); eq19(&x,&y); }
#[kani::proof_for_contract(cmp20)] fn c_cmp20(){ let x=S20(kani::any(),kani::any()); let y=S20(kani::any(),kani::any()); cmp20(&x,&y); }
#[kani::proof_for_contract(eq20)] fn c_eq20(){ let x=S20(kani::any(),kani::any()); let y=S20(kani::any(),kani::any()); eq20(&x,&y); }
#[kani::proof_for_contract(cmp21)] fn c_cmp21(){ let x=S21(kani::any(),kani::any()); let y=S21(kani::any(),kani::any()); cmp21(&x,&y); }
#[kani::proof_for_contract(eq21)] fn c_eq21(){ let x=S21(kani::any(),kani::any()); let y=S21(kani::any(),kani::any()); eq21(&x,&y); }
#[kani::proof_for_contract(cmp22)] fn c_cmp22(){ let x=S22(kani::any(),kani::any()); let y=S22(kani::any(),kani::any()); cmp22(&x,&y); }
#[kani::proof_for_contract(eq22)] fn c_eq22(){ let x=S22(kani::any(),kani::any()); let y=S22(kani::any(),kani::any()); eq22(&x,&y); }
#[kani::proof_for_contract(cmp23)] fn c_cmp23(){ let x=S23(kani::any(),kani::any()); let y=S23(kani::any(),kani::any()); cmp23(&x,&y); }
#[kani::proof_for_contract(eq23)] fn c_eq23(){ let x=S23(kani::any(),kani::any()); let y=S23(kani::any(),kani::any()); eq23(&x,&y); }
#[kani::proof_for_contract(cmp24)] fn c_cmp24(){ let x=S24(kani::any(),kani::any()); let y=S24(kani::any(),kani::any()); cmp24(&x,&y); }
#[kani::proof_for_contract(eq24)] fn c_eq24(){ let x=S24(kani::any(),kani::any()); let y=S24(kani::any(),kani::any()); eq24(&x,&y); }
#[kani::proof_for_contract(cmp25)] fn c_cmp25(){ let x=S25(kani::any(),kani::any()); let y=S25(kani::any(),kani::any()); cmp25(&x,&y); }
#[kani::proof_for_contract(eq25)] fn c_eq25(){ let x=S25(kani::any(),kani::any()); let y=S25(kani::any(),kani::any()); eq25(&x,&y); }
}
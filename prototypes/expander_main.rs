use std::io::Read;
fn main() {
    let mut s = String::new();
    std::io::stdin().read_to_string(&mut s).unwrap();
    let (attr, item) = s.split_once("\n---\n").unwrap();
    let attr: proc_macro2::TokenStream = attr.parse().unwrap();
    let item: proc_macro2::TokenStream = item.parse().unwrap();
    let out = std::panic::catch_unwind(|| derive_ex::verif_hooks::expand_attr(attr, item));
    match out { Ok(ts) => println!("{ts}"), Err(_) => println!("PANIC") }
}

use derive_ex::derive_ex;
#[derive_ex(Eq, PartialEq)]
struct X<T>(T) where Self: Sized;
fn main() {}

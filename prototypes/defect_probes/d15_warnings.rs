#![deny(warnings)]
use derive_ex::derive_ex;
#[derive_ex(Ord, PartialOrd, Eq, PartialEq, Hash, Clone, Debug)]
enum One { A(u8) }
#[derive_ex(Ord, PartialOrd, Eq, PartialEq, Hash, Clone, Debug, Default)]
enum Two { #[default] A, B(u8) }
#[derive_ex(Ord, PartialOrd, Eq, PartialEq, Hash, Clone, Debug, Default)]
struct U;
fn main() { let _ = (One::A(1), Two::A, Two::B(1), U); }

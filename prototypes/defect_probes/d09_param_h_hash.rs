use derive_ex::derive_ex;
#[derive_ex(Hash)]
struct X<H>(H);
fn main() {}

use derive_ex::derive_ex;
#[derive_ex(Ord, PartialOrd, Eq, PartialEq, Hash, Clone, Debug, Default)]
struct X<this, other, state, f, T>(this, other, state, f, T);
fn main() {}

use derive_ex::derive_ex;
#[derive_ex(Ord, PartialOrd, Eq, PartialEq, Hash, Clone, Debug, Default, Add, AddAssign, Neg)]
struct X { this: i8, other: i8, state: i8, f: i8, rhs: i8, source: i8, o: i8, to_index: i8 }
#[derive_ex(Ord, PartialOrd, Eq, PartialEq, Hash, Clone, Debug)]
enum E { V { this: i8, other: i8, state: i8, f: i8, lhs: i8, rhs: i8, o: i8, to_index: i8 }, W }
fn main() {}

use derive_ex::derive_ex;
#[derive_ex(Debug)]
struct X<T: ?Sized> { a: u8, t: T }
fn main() { let x: &X<[u8]> = &X { a: 1, t: [1u8, 2] }; println!("{:?}", x); }

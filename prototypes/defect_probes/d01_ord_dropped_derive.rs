use derive_ex::Ex;
#[derive(Ex, PartialEq, Debug)]
#[derive_ex(PartialOrd)]
struct X(#[ord(reverse)] u8);
fn main() { assert!(X(1) > X(2), "ord(reverse) silently dropped"); }

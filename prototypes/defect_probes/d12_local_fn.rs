use derive_ex::derive_ex;
#[allow(dead_code)] struct Fn;
fn c(a: &u8, b: &u8) -> core::cmp::Ordering { a.cmp(b) }
#[derive_ex(Ord, PartialOrd, Eq, PartialEq)]
struct X(#[ord(by = c)] u8);
fn main() {}

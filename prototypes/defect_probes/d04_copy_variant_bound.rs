use derive_ex::derive_ex;
trait M {}
#[derive_ex(Copy, Clone)]
enum X<T> {
    #[derive_ex(Copy(bound(T: M)), Clone(bound(T: M)))]
    A(core::marker::PhantomData<T>),
}
fn is_copy<T: Copy>() {}
fn is_clone<T: Clone>() {}
fn main() { is_clone::<X<String>>(); is_copy::<X<String>>(); }

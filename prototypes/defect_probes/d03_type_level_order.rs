use derive_ex::derive_ex;
trait M1 {} trait M2 {}
struct P; impl M2 for P {}
// doc: partial_eq consulted first -> stops at bound(T: M2); ord's bound(T: M1) must not be reached
#[derive_ex(PartialEq)]
#[partial_eq(bound(T: M2))]
#[ord(bound(T: M1))]
struct X<T>(core::marker::PhantomData<T>);
fn main() { let _ = X::<P>(core::marker::PhantomData) == X::<P>(core::marker::PhantomData); }

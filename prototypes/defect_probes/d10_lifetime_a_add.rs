use derive_ex::derive_ex;
#[derive(Clone, Copy)] struct R<'a>(&'a u8);
impl<'a> core::ops::Add<R<'a>> for R<'a> { type Output = R<'a>; fn add(self, _r: R<'a>) -> R<'a> { self } }
impl<'a, 'b> core::ops::Add<&'b R<'a>> for R<'a> { type Output = R<'a>; fn add(self, _r: &'b R<'a>) -> R<'a> { self } }
impl<'a, 'b> core::ops::Add<R<'a>> for &'b R<'a> { type Output = R<'a>; fn add(self, _r: R<'a>) -> R<'a> { *self } }
impl<'a, 'b, 'c> core::ops::Add<&'c R<'a>> for &'b R<'a> { type Output = R<'a>; fn add(self, _r: &'c R<'a>) -> R<'a> { *self } }
#[derive_ex(Add)]
struct X<'a, T>(R<'a>, T);
fn main() {}

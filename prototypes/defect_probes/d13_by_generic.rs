use derive_ex::derive_ex;
fn c<T>(_a: &T, _b: &T) -> bool { true }
#[derive_ex(PartialEq)]
struct X<T>(#[partial_eq(by = c, bound())] T);
fn main() {}

use derive_ex::derive_ex;
#[allow(dead_code)] struct Eq;
#[derive_ex(Eq, PartialEq)]
struct X(u8);
fn main() {}

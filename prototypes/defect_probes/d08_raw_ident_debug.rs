use derive_ex::derive_ex;
#[derive_ex(Debug)]
struct X { r#type: u8 }
#[derive(Debug)]
struct Y { r#type: u8 }
fn main() { assert_eq!(format!("{:?}", X { r#type: 1 }).replace("X", "Y"), format!("{:?}", Y { r#type: 1 })); }

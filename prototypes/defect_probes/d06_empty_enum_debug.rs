use derive_ex::derive_ex;
#[derive_ex(Debug)]
enum X {}
fn main() {}

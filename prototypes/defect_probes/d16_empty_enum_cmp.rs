use derive_ex::derive_ex;
#[derive_ex(Ord, PartialOrd, Eq, PartialEq, Hash)]
enum X {}
fn main() {}

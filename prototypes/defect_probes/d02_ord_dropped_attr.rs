use derive_ex::derive_ex;
#[derive(PartialEq, Debug)]
#[derive_ex(PartialOrd)]
struct X(#[ord(reverse)] u8);
fn main() { assert!(X(1) > X(2)); }

use derive_ex::derive_ex;
#[derive_ex(Clone)]
enum X {}
fn main() {}

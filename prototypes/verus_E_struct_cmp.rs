use vstd::prelude::*;
use vstd::std_specs::cmp::*;
use core::cmp::Ordering;
verus! {
pub struct S {
    pub a: u8,
    pub b: i16,
    pub c: u8,
    pub d: u8,
}

pub assume_specification [core::cmp::Ordering::reverse] (o: Ordering) -> (r: Ordering)
    ensures r == (match o { Ordering::Less => Ordering::Greater, Ordering::Equal => Ordering::Equal, Ordering::Greater => Ordering::Less });

pub open spec fn ord_int(a: int, b: int) -> Ordering {
    if a < b { Ordering::Less } else if a == b { Ordering::Equal } else { Ordering::Greater }
}
pub open spec fn rev(o: Ordering) -> Ordering {
    match o { Ordering::Less => Ordering::Greater, Ordering::Equal => Ordering::Equal, Ordering::Greater => Ordering::Less }
}
pub open spec fn then(o: Ordering, p: Ordering) -> Ordering {
    if o == Ordering::Equal { p } else { o }
}

impl PartialEqSpecImpl for S {
    open spec fn obeys_eq_spec() -> bool { true }
    open spec fn eq_spec(&self, other: &S) -> bool {
        self.a == other.a && self.b == other.b && (self.d & 0x0f) == (other.d & 0x0f)
    }
}
pub open spec fn s_cmp(a: &S, other: &S) -> Ordering { let self_ = a;
        then(ord_int(self_.a as int, other.a as int),
        then(rev(ord_int(self_.b as int, other.b as int)),
             ord_int((self_.d & 0x0f) as int, (other.d & 0x0f) as int)))
}
impl OrdSpecImpl for S {
    open spec fn obeys_cmp_spec() -> bool { true }
    open spec fn cmp_spec(&self, other: &S) -> Ordering { s_cmp(self, other) }
}
impl PartialOrdSpecImpl for S {
    open spec fn obeys_partial_cmp_spec() -> bool { true }
    open spec fn partial_cmp_spec(&self, other: &S) -> Option<Ordering> {
        Some(s_cmp(self, other))
    }
}

impl ::core::cmp::PartialEq for S {
    fn eq(&self, other: &Self) -> bool {
        ::core::cmp::PartialEq::eq(&((self.a)), &((other.a))) &&
                ::core::cmp::PartialEq::eq(&((self.b)), &((other.b))) &&
            ::core::cmp::PartialEq::eq(&((self.d) & 0x0f),
                &((other.d) & 0x0f))
    }
}
impl ::core::cmp::Eq for S { }
impl ::core::cmp::PartialOrd for S {
    fn partial_cmp(&self, other: &Self)
        -> ::core::option::Option<::core::cmp::Ordering> {
        match ::core::cmp::PartialOrd::partial_cmp(&((self.a)), &((other.a)))
            {
            ::core::option::Option::Some(::core::cmp::Ordering::Equal) => {}
            o => return o,
        }
        match ::core::option::Option::map(::core::cmp::PartialOrd::partial_cmp(&((self.b)),
                    &((other.b))), ::core::cmp::Ordering::reverse) {
            ::core::option::Option::Some(::core::cmp::Ordering::Equal) => {}
            o => return o,
        }
        match ::core::cmp::PartialOrd::partial_cmp(&((self.d) & 0x0f),
                &((other.d) & 0x0f)) {
            ::core::option::Option::Some(::core::cmp::Ordering::Equal) => {}
            o => return o,
        }
        ::core::option::Option::Some(::core::cmp::Ordering::Equal)
    }
}

impl ::core::cmp::Ord for S {
    fn cmp(&self, other: &Self) -> ::core::cmp::Ordering {
        match ::core::cmp::Ord::cmp(&((self.a)), &((other.a))) {
            ::core::cmp::Ordering::Equal => {}
            o => return o,
        }
        match ::core::cmp::Ordering::reverse(::core::cmp::Ord::cmp(&((self.b)),
                    &((other.b)))) {
            ::core::cmp::Ordering::Equal => {}
            o => return o,
        }
        match ::core::cmp::Ord::cmp(&((self.d) & 0x0f), &((other.d) & 0x0f)) {
            ::core::cmp::Ordering::Equal => {}
            o => return o,
        }
        ::core::cmp::Ordering::Equal
    }
}
} // verus!
fn main() {}

#!/bin/bash
# seedtest.sh <seed-id> <patch.diff> <prop> [<prop>...] : apply a seeded change to /repo, run the given checks (evidence and
# replays go to build/seedruns/<seed-id>/), undo the change straight afterwards.
id=$1; patch=$2; shift 2
if [ -n "$(git -C /repo status --porcelain --untracked-files=no)" ]; then echo "/repo is dirty"; exit 3; fi
out=/verif/build/seedruns/$id; mkdir -p $out/evidence $out/replays
git -C /repo apply "$patch" || { echo "patch does not apply"; exit 3; }
trap 'git -C /repo checkout -- . ; git -C /repo clean -fdq derive-ex-tests/tests 2>/dev/null' EXIT
for p in "$@"; do
  s=$(date +%s)
  VERIF_EVIDENCE_DIR=$out/evidence VERIF_REPLAYS_DIR=$out/replays ./check $p --tier ${TIER:-quick} > $out/$p.log 2>&1; rc=$?
  e=$(date +%s)
  echo "$id $p rc=$rc $((e-s))s $(grep -cE '^VIOLATION' $out/$p.log) violation lines; $(grep -E '^(VIOLATION|UNDECIDED|OK)' $out/$p.log | head -1 | cut -c1-160)"
  grep -A1 -m2 '^VIOLATION' $out/$p.log | grep 'obligation/input' | cut -c1-260
done

#!/bin/bash
# seedtest.sh <seed-id> <patch.diff> <prop> [<prop>...] : apply a seeded change, run the given checks (evidence and replays go to
# build/seedruns/<seed-id>/), undo the change straight afterwards.
# Default: the change is applied to /repo itself (git -C /repo apply ... git -C /repo checkout -- .).
# With SEEDREPO=<scratch worktree of /repo> the change is applied there and the checks run with VERIF_REPO=$SEEDREPO
# (used while a long background run is reading /repo).
id=$1; patch=$2; shift 2
R=${SEEDREPO:-/repo}
if [ -n "$(git -C $R status --porcelain --untracked-files=no)" ]; then echo "$R is dirty"; exit 3; fi
out=/verif/build/seedruns/$id; mkdir -p $out/evidence $out/replays
git -C $R apply "$patch" || { echo "patch does not apply"; exit 3; }
trap 'git -C $R checkout -- . ; git -C $R clean -fdq derive-ex-tests/tests 2>/dev/null' EXIT
for p in "$@"; do
  s=$(date +%s)
  if [ "$R" = "/repo" ]; then
    VERIF_EVIDENCE_DIR=$out/evidence VERIF_REPLAYS_DIR=$out/replays ./check $p --tier ${TIER:-quick} > $out/$p.log 2>&1; rc=$?
  else
    VERIF_REPO=$R VERIF_EVIDENCE_DIR=$out/evidence VERIF_REPLAYS_DIR=$out/replays ./check $p --tier ${TIER:-quick} > $out/$p.log 2>&1; rc=$?
  fi
  e=$(date +%s)
  echo "$id $p rc=$rc $((e-s))s $(grep -cE '^VIOLATION' $out/$p.log) violation lines; $(grep -E '^(VIOLATION|UNDECIDED|OK)' $out/$p.log | head -1 | cut -c1-160)"
  grep -A1 -m2 '^VIOLATION' $out/$p.log | grep 'obligation/input' | cut -c1-260
done

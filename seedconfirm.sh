#!/bin/bash
# seedconfirm.sh <PID>: in the sub-agent's worktree /tmp/seed_<PID>: (1) existing suite passes with the change (demo excluded),
# (2) the demonstration fails with the change, (3) passes without it.
P=$1; W=/tmp/seed_$P; cd $W || exit 3
demo=derive-ex-tests/tests/seed_$P.rs
[ -f SEED/patch.diff ] || { echo "no patch"; exit 3; }
git checkout -q -- derive-ex/src; git apply SEED/patch.diff || { echo "$P: SEED/patch.diff does not apply to HEAD"; exit 3; }
mkdir -p /tmp/seedhold; [ -f $demo ] && mv $demo /tmp/seedhold/seed_$P.rs
suite=$(cargo test --workspace --no-fail-fast --offline 2>&1 | awk '/^test result/ {p+=$4; f+=$6} END {print "passed=" p " failed=" f}')
[ -f /tmp/seedhold/seed_$P.rs ] && mv /tmp/seedhold/seed_$P.rs $demo
if [ -f $demo ]; then
  cargo test --offline -p derive-ex-tests --test seed_$P >/tmp/seedhold/$P.with 2>&1; with=$?
  git diff -- derive-ex/src > /tmp/seedhold/$P.cur.diff; git checkout -q -- derive-ex/src; cargo test --offline -p derive-ex-tests --test seed_$P >/tmp/seedhold/$P.without 2>&1; without=$?; git apply /tmp/seedhold/$P.cur.diff
else
  bash seed_demo/run.sh >/tmp/seedhold/$P.with 2>&1; with=$?
  git diff -- derive-ex/src > /tmp/seedhold/$P.cur.diff; git checkout -q -- derive-ex/src; bash seed_demo/run.sh >/tmp/seedhold/$P.without 2>&1; without=$?; git apply /tmp/seedhold/$P.cur.diff
fi
echo "$P suite-with-change: $suite ; demo with change rc=$with (must be !=0) ; without rc=$without (must be 0)"

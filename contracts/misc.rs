#![feature(proc_macro_hygiene)]
#![allow(unused)]
use vstd::prelude::*;
//@ include _prelude.rs
//@ include _types.rs
//@ include _vocab.rs
//@ include _boundspec.rs
//@ include _bounds_chain.rs

#[verus_verify]
impl<'a> FieldEntry<'a> {
    #[verifier::external_body]
    #[verus_spec(r => ensures uses(&r) == Set::<int>::empty())]
    fn member(&self) -> TokenStream { unimplemented!() }
}
verus! {
impl core::fmt::Display for DeriveItemKind { #[verifier::external_body] fn fmt(&self, f: &mut core::fmt::Formatter<'_>) -> core::fmt::Result { unimplemented!() } }
}
// C18: zero or several fields are rejected; C16: the unreachable!() and fields[0] sites cannot be reached / are in bounds
//@ fn item_type.rs build_deref_for_struct
//@   attr #[verus_verify]
//@   spec r => requires e.kind is Deref || e.kind is DerefMut, ensures r is Err <==> fields@.len() != 1
//@ end
fn main() {}

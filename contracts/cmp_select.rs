#![feature(proc_macro_hygiene)]
#![allow(unused)]
use vstd::prelude::*;
//@ include _prelude.rs
//@ include _types.rs
//@ include _vocab.rs

verus! {
#[verifier::external_body]
pub fn verif_ident() -> Ident { unimplemented!() }
}
macro_rules! format_ident { ($($arg:tt)*) => { verif_ident() }; }

#[verus_verify]
impl CompareOp {
    #[verifier::external_body]
    fn to_str_snake_case(self) -> &'static str { unimplemented!() }
}
#[verus_verify]
impl WhereClauseBuilder {
    // proved in unit `bounds`; here only its frame matters (it cannot touch the selection)
    #[verifier::external_body]
    pub fn push_bounds(&mut self, bounds: &Bounds) -> bool { unimplemented!() }
}
#[verus_verify]
impl<'a> FieldEntry<'a> {
    #[verifier::external_body]
    fn span(&self) -> Span { unimplemented!() }
    // builds `#ident` / `#index` only: no user expression
    #[verifier::external_body]
    #[verus_spec(r => ensures uses(&r) == Set::<int>::empty())]
    fn member(&self) -> TokenStream { unimplemented!() }
    #[verifier::external_body]
    fn make_ident(&self, prefix: &str) -> Ident { unimplemented!() }
}

#[verus_verify]
impl ItemSourceKind {
//@ fn item_type/compare_op.rs ItemSourceKind::self_of
//@   spec r => ensures uses(&r) == Set::<int>::empty()
//@ end
//@ fn item_type/compare_op.rs ItemSourceKind::this_of
//@   spec r => ensures uses(&r) == Set::<int>::empty()
//@ end
//@ fn item_type/compare_op.rs ItemSourceKind::other_of
//@   spec r => ensures uses(&r) == Set::<int>::empty()
//@ end
}

#[verus_verify]
impl HelperAttributeForCompareOp {
//@ fn item_type/compare_op.rs HelperAttributeForCompareOp::push_bounds_to
//@ end
//@ fn item_type/compare_op.rs HelperAttributeForCompareOp::bad_attr
//@   spec r => ensures r is Some <==> custom(self)
//@ end
}
#[verus_verify]
impl HelperAttributesForCompareOp {
//@ fn item_type/compare_op.rs HelperAttributesForCompareOp::get
//@   spec r => ensures r == attr_of(self, op)
//@ end
    // proved in unit cmp_flags
    #[verifier::external_body]
    #[verus_spec(r => ensures r is Some <==> any_custom(self))]
    fn bad_attr(&self) -> Option<(String, Span)> { unimplemented!() }
}

// free fn bad_attr<T>: builds the message in a loop over &[&str] with String::push_str and has a tuple-pattern parameter;
// by parametricity a `fn<T>(..) -> Result<T>` can only return Err.
#[verus_verify]
#[verifier::external_body]
#[verus_spec(r => ensures r is Err)]
fn bad_attr<T>(op: CompareOp, bad: (String, Span), good: &[&str]) -> Result<T> { unimplemented!() }

#[verus_verify]
#[verifier::external_body]
#[verus_spec(r => ensures uses(&r) == uses(&this))]
fn build_eq_checker(this: TokenStream) -> TokenStream { unimplemented!() }

//@ fn item_type/compare_op.rs build_partial_eq_expr
//@   attr #[verus_verify]
//@   spec r => ensures
//@     | r is Err <==> bad_default(&field.hattrs.cmp, CompareOp::PartialEq),
//@     | r matches Ok(t) ==> (*final(field_used) == (sel(&field.hattrs.cmp, CompareOp::PartialEq) is None || *old(field_used)))
//@     |     && sel_ok(&field.hattrs.cmp, CompareOp::PartialEq, &t)
//@   before |by: &Expr| ## #[verus_spec(r: TokenStream => ensures uses(&r) =~= set![expr_id(by)])]
//@ end
// C17: what is asserted follows PartialEq's selection (most specific of partial_eq > eq > partial_ord > ord; `by` exempt, `key` in place of the field)
//@ fn item_type/compare_op.rs build_eq_assertion
//@   attr #[verus_verify]
//@   rewrite R11
//@   spec r => requires uses(&this) =~= Set::<int>::empty(), ensures uses(&r) =~= eq_assert_uses(cmp)
//@ end
//@ fn item_type/compare_op.rs build_eq_expr
//@   attr #[verus_verify]
//@   spec r => ensures
//@     | r is Err <==> bad_default(&field.hattrs.cmp, CompareOp::Eq),
//@     | r matches Ok(t) ==> (*final(field_used) == (sel(&field.hattrs.cmp, CompareOp::Eq) is None || *old(field_used)))
//@     |     && eq_checker_ok(&field.hattrs.cmp, &t)
//@ end
//@ fn item_type/compare_op.rs build_partial_ord_expr
//@   attr #[verus_verify]
//@   spec r => ensures
//@     | r is Err <==> bad_default(&field.hattrs.cmp, CompareOp::PartialOrd),
//@     | r matches Ok(t) ==> (*final(field_used) == (sel(&field.hattrs.cmp, CompareOp::PartialOrd) is None || *old(field_used)))
//@     |     && sel_ok(&field.hattrs.cmp, CompareOp::PartialOrd, &t)
//@ end
//@ fn item_type/compare_op.rs build_ord_expr
//@   attr #[verus_verify]
//@   spec r => ensures
//@     | r is Err <==> bad_default(&field.hattrs.cmp, CompareOp::Ord),
//@     | r matches Ok(t) ==> (*final(field_used) == (sel(&field.hattrs.cmp, CompareOp::Ord) is None || *old(field_used)))
//@     |     && sel_ok(&field.hattrs.cmp, CompareOp::Ord, &t)
//@ end
//@ fn item_type/compare_op.rs build_hash_expr
//@   attr #[verus_verify]
//@   spec r => ensures
//@     | r is Err <==> bad_default(&field.hattrs.cmp, CompareOp::Hash),
//@     | r matches Ok(t) ==> (*final(field_used) == (sel(&field.hattrs.cmp, CompareOp::Hash) is None || *old(field_used)))
//@     |     && sel_ok(&field.hattrs.cmp, CompareOp::Hash, &t)
//@ end
fn main() {}

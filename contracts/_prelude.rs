// ---- prelude: opaque stand-ins for dependency types (syn / proc_macro2 / structmeta / std) ----
// Every `external_body` / `uninterp` here is an ASSUMPTION and is listed in the evidence.
verus! {
#[verifier::external_body]
#[derive(Clone, Copy)]
pub struct Span { _p: u8 }
#[verifier::external_body]
pub struct Error { _p: u8 }
pub type Result<T> = core::result::Result<T, Error>;
pub type String = &'static str;          // message text is not modelled
#[verifier::external_body]
pub struct Expr { _p: u8 }
#[verifier::external_body]
pub struct Type { _p: u8 }
#[verifier::external_body]
pub struct WherePredicate { _p: u8 }
#[verifier::external_body]
pub struct Ident { _p: u8 }
#[verifier::external_body]
pub struct Path { _p: u8 }

// structmeta 0.3.0 arg_types.rs: `pub struct Flag { pub span: Option<Span> }`, `value() == span.is_some()`
// (the check compares this against the registry source text on every run)
pub struct Flag { pub span: Option<Span> }
impl Flag {
    pub fn value(&self) -> (r: bool) ensures r == self.span.is_some() { self.span.is_some() }
}

#[verifier::external_body]
pub fn verif_error(span: Span) -> Error { unimplemented!() }
#[verifier::external_body]
pub fn verif_call_site() -> Span { unimplemented!() }
#[verifier::external_body]
pub fn verif_str() -> &'static str { unimplemented!() }

// abstract token stream: only records which *user expressions* (by = .. / key = ..) it mentions
#[verifier::external_body]
pub struct TokenStream { _p: u8 }
pub uninterp spec fn uses(t: &TokenStream) -> Set<int>;
pub uninterp spec fn expr_id(e: &Expr) -> int;
pub uninterp spec fn tmpl_id(e: &Template) -> int;
pub trait ToTok { spec fn tok_uses(&self) -> Set<int>; }
impl ToTok for TokenStream { open spec fn tok_uses(&self) -> Set<int> { uses(self) } }
impl ToTok for Expr { open spec fn tok_uses(&self) -> Set<int> { set![expr_id(self)] } }
impl ToTok for Type { open spec fn tok_uses(&self) -> Set<int> { Set::empty() } }
impl ToTok for Ident { open spec fn tok_uses(&self) -> Set<int> { Set::empty() } }
impl ToTok for Path { open spec fn tok_uses(&self) -> Set<int> { Set::empty() } }
impl<T: ToTok> ToTok for &T { open spec fn tok_uses(&self) -> Set<int> { (**self).tok_uses() } }
impl TokenStream {
    #[verifier::external_body]
    pub fn new() -> (r: TokenStream) ensures uses(&r) == Set::<int>::empty() { unimplemented!() }
    #[verifier::external_body]
    pub fn q_push<T: ToTok>(&mut self, t: &T) ensures uses(final(self)) == uses(old(self)).union(t.tok_uses()) { unimplemented!() }
    // Extend<TokenStream> for TokenStream
    #[verifier::external_body]
    pub fn extend(&mut self, other: TokenStream) ensures uses(final(self)) == uses(old(self)).union(uses(&other)) { unimplemented!() }
}
impl Expr {
    #[verifier::external_body]
    pub fn span(&self) -> Span { unimplemented!() }
}
impl Span {
    #[verifier::external_body]
    pub fn call_site() -> Span { unimplemented!() }
}
impl Ident {
    // syn::ext::IdentExt::unraw
    #[verifier::external_body]
    pub fn unraw(&self) -> Ident { unimplemented!() }
}
impl<T: ToTok> ToTok for Option<T> { open spec fn tok_uses(&self) -> Set<int> { match self { Some(t) => t.tok_uses(), None => Set::empty() } } }
// compare_op.rs `struct Template(TokenStream)`: its methods go through replace_tokens (TokenTree iteration,
// out of the verifier's reach); their dataflow is assumed: the result mentions the template and its arguments.
#[verifier::external_body]
pub struct Template { _p: u8 }
impl Template {
    #[verifier::external_body]
    pub fn span(&self) -> Span { unimplemented!() }
    #[verifier::external_body]
    pub fn build_eq_expr(&self, this: TokenStream, other: TokenStream) -> (r: TokenStream)
        ensures uses(&r) == set![tmpl_id(self)].union(uses(&this)).union(uses(&other)) { unimplemented!() }
    #[verifier::external_body]
    pub fn build_partial_cmp_expr(&self, this: TokenStream, other: TokenStream) -> (r: TokenStream)
        ensures uses(&r) == set![tmpl_id(self)].union(uses(&this)).union(uses(&other)) { unimplemented!() }
    #[verifier::external_body]
    pub fn build_cmp_expr(&self, this: TokenStream, other: TokenStream) -> (r: TokenStream)
        ensures uses(&r) == set![tmpl_id(self)].union(uses(&this)).union(uses(&other)) { unimplemented!() }
    #[verifier::external_body]
    pub fn build_hash_stmt(&self, this: TokenStream) -> (r: TokenStream)
        ensures uses(&r) == set![tmpl_id(self)].union(uses(&this)) { unimplemented!() }
    #[verifier::external_body]
    pub fn build_eq_checker(&self, this: TokenStream) -> (r: TokenStream)
        ensures uses(&r) == set![tmpl_id(self)].union(uses(&this)) { unimplemented!() }
}
}
macro_rules! bail {
    (_, $($arg:tt)*) => { return core::result::Result::Err(verif_error(verif_call_site())) };
    ($span:expr, $($arg:tt)*) => { return core::result::Result::Err(verif_error($span)) };
}
macro_rules! format { ($($arg:tt)*) => { verif_str() }; }
// quote!/quote_spanned!: opaque stream, recording every `#var` interpolation (recursing into groups)
macro_rules! __q {
    ($q:ident;) => {};
    ($q:ident; # ( $($inner:tt)* ) $sep:tt * $($rest:tt)*) => { __q!($q; $($inner)*); __q!($q; $($rest)*); };
    ($q:ident; # ( $($inner:tt)* ) * $($rest:tt)*) => { __q!($q; $($inner)*); __q!($q; $($rest)*); };
    ($q:ident; # $v:ident $($rest:tt)*) => { $q.q_push(&$v); __q!($q; $($rest)*); };
    ($q:ident; ( $($inner:tt)* ) $($rest:tt)*) => { __q!($q; $($inner)*); __q!($q; $($rest)*); };
    ($q:ident; { $($inner:tt)* } $($rest:tt)*) => { __q!($q; $($inner)*); __q!($q; $($rest)*); };
    ($q:ident; [ $($inner:tt)* ] $($rest:tt)*) => { __q!($q; $($inner)*); __q!($q; $($rest)*); };
    ($q:ident; $t:tt $($rest:tt)*) => { __q!($q; $($rest)*); };
}
macro_rules! quote { ($($t:tt)*) => {{ let mut __qs = TokenStream::new(); __q!(__qs; $($t)*); __qs }}; }
macro_rules! quote_spanned { ($span:expr => $($t:tt)*) => {{ let _ = $span; let mut __qs = TokenStream::new(); __q!(__qs; $($t)*); __qs }}; }

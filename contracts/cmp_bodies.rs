#![feature(proc_macro_hygiene)]
#![allow(unused)]
use vstd::prelude::*;
//@ include _prelude.rs
//@ include _types.rs
//@ include _vocab.rs
//@ include _boundspec.rs
//@ include _bounds_chain.rs

verus! {
#[verifier::external_body]
pub fn verif_ident() -> Ident { unimplemented!() }
// "If by/key is specified with a high-priority helper attribute, the trait bounds of a lower-priority helper attribute
// will not be used": at field level the helper attributes are consulted most specific first, up to and including the
// one whose by/key is selected.
pub open spec fn stop_at(h: &HelperAttributesForCompareOp, a: CompareOp, tgt: CompareOp) -> bool { usable(h, a, tgt) }
pub open spec fn fstep(s: St, stopped: bool, h: &HelperAttributesForCompareOp, a: CompareOp, tgt: CompareOp) -> St {
    if affects(a, tgt) && !stopped { step(s, &attr_of(h, a).bounds) } else { s }
}
pub open spec fn field_helper(s: St, h: &HelperAttributesForCompareOp, tgt: CompareOp) -> St {
    let s1 = fstep(s, false, h, CompareOp::Hash, tgt);
    let k1 = stop_at(h, CompareOp::Hash, tgt);
    let s2 = fstep(s1, k1, h, CompareOp::PartialEq, tgt);
    let k2 = k1 || stop_at(h, CompareOp::PartialEq, tgt);
    let s3 = fstep(s2, k2, h, CompareOp::Eq, tgt);
    let k3 = k2 || stop_at(h, CompareOp::Eq, tgt);
    let s4 = fstep(s3, k3, h, CompareOp::PartialOrd, tgt);
    let k4 = k3 || stop_at(h, CompareOp::PartialOrd, tgt);
    fstep(s4, k4, h, CompareOp::Ord, tgt)
}
}
macro_rules! format_ident { ($($arg:tt)*) => { verif_ident() }; }

#[verus_verify]
impl CompareOp {
    #[verifier::external_body]
    fn to_str_snake_case(self) -> &'static str { unimplemented!() }
}
#[verus_verify]
impl<'a> FieldEntry<'a> {
    #[verifier::external_body]
    fn span(&self) -> Span { unimplemented!() }
    #[verifier::external_body]
    #[verus_spec(r => ensures uses(&r) == Set::<int>::empty())]
    fn member(&self) -> TokenStream { unimplemented!() }
    #[verifier::external_body]
    fn make_ident(&self, prefix: &str) -> Ident { unimplemented!() }
}
#[verus_verify]
impl ItemSourceKind {
    #[verifier::external_body]
    #[verus_spec(r => ensures uses(&r) == Set::<int>::empty())]
    fn self_of(self, field: &FieldEntry) -> TokenStream { unimplemented!() }
    #[verifier::external_body]
    #[verus_spec(r => ensures uses(&r) == Set::<int>::empty())]
    fn this_of(self, field: &FieldEntry) -> TokenStream { unimplemented!() }
    #[verifier::external_body]
    #[verus_spec(r => ensures uses(&r) == Set::<int>::empty())]
    fn other_of(self, field: &FieldEntry) -> TokenStream { unimplemented!() }
}
#[verus_verify]
impl HelperAttributesForCompareOp {
    // proved in unit cmp_flags
    #[verifier::external_body]
    #[verus_spec(r => ensures r is Some <==> any_custom(self))]
    fn bad_attr(&self) -> Option<(String, Span)> { unimplemented!() }
}
#[verus_verify]
#[verifier::external_body]
#[verus_spec(r => ensures r is Err)]
fn bad_attr<T>(op: CompareOp, bad: (String, Span), good: &[&str]) -> Result<T> { unimplemented!() }
#[verus_verify]
#[verifier::external_body]
fn build_eq_checker(this: TokenStream) -> TokenStream { unimplemented!() }

// the five per-field selectors, this time with their effect on the where-clause builder
//@ fn item_type/compare_op.rs build_partial_eq_expr
//@   attr #[verus_verify]
//@   spec r => ensures
//@     | r is Err <==> bad_default(&field.hattrs.cmp, CompareOp::PartialEq),
//@     | r is Ok ==> *final(field_used) == (sel(&field.hattrs.cmp, CompareOp::PartialEq) is None || *old(field_used)),
//@     | r is Ok ==> st(final(wcb), *final(use_bounds)) == field_helper(st(old(wcb), *old(use_bounds)), &field.hattrs.cmp, CompareOp::PartialEq),
//@     | final(wcb).gps == old(wcb).gps
//@   before |by: &Expr| ## #[verus_spec(r: TokenStream => ensures true)]
//@ end
//@ fn item_type/compare_op.rs build_eq_expr
//@   attr #[verus_verify]
//@   spec r => ensures
//@     | r is Err <==> bad_default(&field.hattrs.cmp, CompareOp::Eq),
//@     | r is Ok ==> *final(field_used) == (sel(&field.hattrs.cmp, CompareOp::Eq) is None || *old(field_used)),
//@     | r is Ok ==> st(final(wcb), *final(use_bounds)) == field_helper(st(old(wcb), *old(use_bounds)), &field.hattrs.cmp, CompareOp::Eq),
//@     | final(wcb).gps == old(wcb).gps
//@ end
//@ fn item_type/compare_op.rs build_partial_ord_expr
//@   attr #[verus_verify]
//@   spec r => ensures
//@     | r is Err <==> bad_default(&field.hattrs.cmp, CompareOp::PartialOrd),
//@     | r is Ok ==> *final(field_used) == (sel(&field.hattrs.cmp, CompareOp::PartialOrd) is None || *old(field_used)),
//@     | r is Ok ==> st(final(wcb), *final(use_bounds)) == field_helper(st(old(wcb), *old(use_bounds)), &field.hattrs.cmp, CompareOp::PartialOrd),
//@     | final(wcb).gps == old(wcb).gps
//@ end
//@ fn item_type/compare_op.rs build_ord_expr
//@   attr #[verus_verify]
//@   spec r => ensures
//@     | r is Err <==> bad_default(&field.hattrs.cmp, CompareOp::Ord),
//@     | r is Ok ==> *final(field_used) == (sel(&field.hattrs.cmp, CompareOp::Ord) is None || *old(field_used)),
//@     | r is Ok ==> st(final(wcb), *final(use_bounds)) == field_helper(st(old(wcb), *old(use_bounds)), &field.hattrs.cmp, CompareOp::Ord),
//@     | final(wcb).gps == old(wcb).gps
//@ end
//@ fn item_type/compare_op.rs build_hash_expr
//@   attr #[verus_verify]
//@   spec r => ensures
//@     | r is Err <==> bad_default(&field.hattrs.cmp, CompareOp::Hash),
//@     | r is Ok ==> *final(field_used) == (sel(&field.hattrs.cmp, CompareOp::Hash) is None || *old(field_used)),
//@     | r is Ok ==> st(final(wcb), *final(use_bounds)) == field_helper(st(old(wcb), *old(use_bounds)), &field.hattrs.cmp, CompareOp::Hash),
//@     | final(wcb).gps == old(wcb).gps
//@ end
fn main() {}

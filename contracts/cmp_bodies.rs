#![feature(proc_macro_hygiene)]
#![allow(unused)]
use vstd::prelude::*;
//@ include _prelude.rs
//@ include _types.rs
//@ include _vocab.rs
//@ include _boundspec.rs
//@ include _bounds_chain.rs

verus! {
#[verifier::external_body]
pub fn verif_ident() -> Ident { unimplemented!() }
// "If by/key is specified with a high-priority helper attribute, the trait bounds of a lower-priority helper attribute
// will not be used": at field level the helper attributes are consulted most specific first, up to and including the
// one whose by/key is selected.
pub open spec fn stop_at(h: &HelperAttributesForCompareOp, a: CompareOp, tgt: CompareOp) -> bool { usable(h, a, tgt) }
pub open spec fn fstep(s: St, stopped: bool, h: &HelperAttributesForCompareOp, a: CompareOp, tgt: CompareOp) -> St {
    if affects(a, tgt) && !stopped { step(s, &attr_of(h, a).bounds) } else { s }
}
pub open spec fn field_helper(s: St, h: &HelperAttributesForCompareOp, tgt: CompareOp) -> St {
    let s1 = fstep(s, false, h, CompareOp::Hash, tgt);
    let k1 = stop_at(h, CompareOp::Hash, tgt);
    let s2 = fstep(s1, k1, h, CompareOp::PartialEq, tgt);
    let k2 = k1 || stop_at(h, CompareOp::PartialEq, tgt);
    let s3 = fstep(s2, k2, h, CompareOp::Eq, tgt);
    let k3 = k2 || stop_at(h, CompareOp::Eq, tgt);
    let s4 = fstep(s3, k3, h, CompareOp::PartialOrd, tgt);
    let k4 = k3 || stop_at(h, CompareOp::PartialOrd, tgt);
    fstep(s4, k4, h, CompareOp::Ord, tgt)
}
}
macro_rules! format_ident { ($($arg:tt)*) => { verif_ident() }; }

#[verus_verify]
impl CompareOp {
    #[verifier::external_body]
    fn to_str_snake_case(self) -> &'static str { unimplemented!() }
}
#[verus_verify]
impl<'a> FieldEntry<'a> {
    #[verifier::external_body]
    fn span(&self) -> Span { unimplemented!() }
    #[verifier::external_body]
    #[verus_spec(r => ensures uses(&r) == Set::<int>::empty())]
    fn member(&self) -> TokenStream { unimplemented!() }
    #[verifier::external_body]
    fn make_ident(&self, prefix: &str) -> Ident { unimplemented!() }
}
#[verus_verify]
impl ItemSourceKind {
    #[verifier::external_body]
    #[verus_spec(r => ensures uses(&r) == Set::<int>::empty())]
    fn self_of(self, field: &FieldEntry) -> TokenStream { unimplemented!() }
    #[verifier::external_body]
    #[verus_spec(r => ensures uses(&r) == Set::<int>::empty())]
    fn this_of(self, field: &FieldEntry) -> TokenStream { unimplemented!() }
    #[verifier::external_body]
    #[verus_spec(r => ensures uses(&r) == Set::<int>::empty())]
    fn other_of(self, field: &FieldEntry) -> TokenStream { unimplemented!() }
}
#[verus_verify]
impl HelperAttributesForCompareOp {
    // proved in unit cmp_flags
    #[verifier::external_body]
    #[verus_spec(r => ensures r is Some <==> any_custom(self))]
    fn bad_attr(&self) -> Option<(String, Span)> { unimplemented!() }
}
#[verus_verify]
#[verifier::external_body]
#[verus_spec(r => ensures r is Err)]
fn bad_attr<T>(op: CompareOp, bad: (String, Span), good: &[&str]) -> Result<T> { unimplemented!() }
#[verus_verify]
#[verifier::external_body]
fn build_eq_checker(this: TokenStream) -> TokenStream { unimplemented!() }
#[verus_verify]
#[verifier::external_body]
fn build_eq_assertion(cmp: &HelperAttributesForCompareOp, this: TokenStream) -> TokenStream { unimplemented!() }     // under contract in unit cmp_select

// the five per-field selectors, this time with their effect on the where-clause builder
//@ fn item_type/compare_op.rs build_partial_eq_expr
//@   attr #[verus_verify]
//@   spec r => ensures
//@     | r is Err <==> bad_default(&field.hattrs.cmp, CompareOp::PartialEq),
//@     | r is Ok ==> *final(field_used) == (sel(&field.hattrs.cmp, CompareOp::PartialEq) is None || *old(field_used)),
//@     | r is Ok ==> st(final(wcb), *final(use_bounds)) == field_helper(st(old(wcb), *old(use_bounds)), &field.hattrs.cmp, CompareOp::PartialEq),
//@     | final(wcb).gps == old(wcb).gps
//@   before |by: &Expr| ## #[verus_spec(r: TokenStream => ensures true)]
//@ end
//@ fn item_type/compare_op.rs build_eq_expr
//@   attr #[verus_verify]
//@   spec r => ensures
//@     | r is Err <==> bad_default(&field.hattrs.cmp, CompareOp::Eq),
//@     | r is Ok ==> *final(field_used) == (sel(&field.hattrs.cmp, CompareOp::Eq) is None || *old(field_used)),
//@     | r is Ok ==> st(final(wcb), *final(use_bounds)) == field_helper(st(old(wcb), *old(use_bounds)), &field.hattrs.cmp, CompareOp::Eq),
//@     | final(wcb).gps == old(wcb).gps
//@ end
//@ fn item_type/compare_op.rs build_partial_ord_expr
//@   attr #[verus_verify]
//@   spec r => ensures
//@     | r is Err <==> bad_default(&field.hattrs.cmp, CompareOp::PartialOrd),
//@     | r is Ok ==> *final(field_used) == (sel(&field.hattrs.cmp, CompareOp::PartialOrd) is None || *old(field_used)),
//@     | r is Ok ==> st(final(wcb), *final(use_bounds)) == field_helper(st(old(wcb), *old(use_bounds)), &field.hattrs.cmp, CompareOp::PartialOrd),
//@     | final(wcb).gps == old(wcb).gps
//@ end
//@ fn item_type/compare_op.rs build_ord_expr
//@   attr #[verus_verify]
//@   spec r => ensures
//@     | r is Err <==> bad_default(&field.hattrs.cmp, CompareOp::Ord),
//@     | r is Ok ==> *final(field_used) == (sel(&field.hattrs.cmp, CompareOp::Ord) is None || *old(field_used)),
//@     | r is Ok ==> st(final(wcb), *final(use_bounds)) == field_helper(st(old(wcb), *old(use_bounds)), &field.hattrs.cmp, CompareOp::Ord),
//@     | final(wcb).gps == old(wcb).gps
//@ end
//@ fn item_type/compare_op.rs build_hash_expr
//@   attr #[verus_verify]
//@   spec r => ensures
//@     | r is Err <==> bad_default(&field.hattrs.cmp, CompareOp::Hash),
//@     | r is Ok ==> *final(field_used) == (sel(&field.hattrs.cmp, CompareOp::Hash) is None || *old(field_used)),
//@     | r is Ok ==> st(final(wcb), *final(use_bounds)) == field_helper(st(old(wcb), *old(use_bounds)), &field.hattrs.cmp, CompareOp::Hash),
//@     | final(wcb).gps == old(wcb).gps
//@ end

verus! {
#[verifier::external_body]
pub fn build_to_index_fn(variants: &[VariantEntry]) -> TokenStream { unimplemented!() }
// C03/C04 at field level for the comparison family: ignored fields contribute nothing; otherwise helper attributes most specific
// first up to the selected by/key, then the per-trait / shared arguments, then the field type iff no by/key is selected
pub open spec fn cmp_field_phase(s: St, go: bool, g: &GenericParamSet, f: &FieldEntry, tgt: CompareOp) -> St {
    if ign(&f.hattrs.cmp, tgt) { s } else {
        let s1 = field_helper(St { go, ..s }, &f.hattrs.cmp, tgt);
        let s2 = items_phase(s1, &f.hattrs, DeriveItemKind::CompareOp(tgt));
        if sel(&f.hattrs.cmp, tgt) is None { field_default(s2, g, &f.field.ty) } else { s2 }
    }
}
pub open spec fn cmp_fields_phase(s: St, go: bool, g: &GenericParamSet, fs: Seq<FieldEntry>, n: int, tgt: CompareOp) -> St decreases n {
    if n <= 0 { s } else { cmp_field_phase(cmp_fields_phase(s, go, g, fs, n - 1, tgt), go, g, &fs[n - 1], tgt) }
}
pub open spec fn all_accept(fs: Seq<FieldEntry>, n: int, tgt: CompareOp) -> bool {
    forall|i: int| 0 <= i < n ==> accept(&(#[trigger] fs[i]).hattrs.cmp, tgt)
}
pub open spec fn cmp_variants_phase(s: St, go: bool, g: &GenericParamSet, vs: Seq<VariantEntry>, n: int, tgt: CompareOp) -> St decreases n {
    if n <= 0 { s } else {
        let p = cmp_variants_phase(s, go, g, vs, n - 1, tgt);
        let s1 = level_phase(St { go, ..p }, &vs[n - 1].hattrs, DeriveItemKind::CompareOp(tgt));
        cmp_fields_phase(St { go: true, ..s1 }, s1.go, g, vs[n - 1].fields@, vs[n - 1].fields@.len() as int, tgt)
    }
}
pub open spec fn all_variants_accept(vs: Seq<VariantEntry>, n: int, tgt: CompareOp) -> bool {
    forall|i: int| 0 <= i < n ==> all_accept((#[trigger] vs[i]).fields@, vs[i].fields@.len() as int, tgt)
}
pub proof fn lemma_not_all(vs: Seq<VariantEntry>, idx: int, tgt: CompareOp)
    requires 0 <= idx < vs.len(), !all_accept(vs[idx].fields@, vs[idx].fields@.len() as int, tgt),
    ensures !all_variants_accept(vs, vs.len() as int, tgt),
{
}
pub open spec fn source_accept(source: ItemSource, tgt: CompareOp) -> bool {
    match source {
        ItemSource::Struct { item, fields } => all_accept(fields@, fields@.len() as int, tgt),
        ItemSource::Enum { item, variants } => all_variants_accept(variants@, variants@.len() as int, tgt),
    }
}
pub open spec fn source_phase(s: St, go: bool, g: &GenericParamSet, source: ItemSource, tgt: CompareOp) -> St {
    match source {
        ItemSource::Struct { item, fields } => cmp_fields_phase(s, go, g, fields@, fields@.len() as int, tgt),
        ItemSource::Enum { item, variants } => cmp_variants_phase(s, go, g, variants@, variants@.len() as int, tgt),
    }
}
}
//@ enum item_type/compare_op.rs ItemSource
verus! {
pub open spec fn source_generics(source: ItemSource) -> &Generics {
    match source { ItemSource::Struct { item, fields } => &item.generics, ItemSource::Enum { item, variants } => &item.generics }
}
// the whole where-clause of a derived comparison impl: declared predicates, type level (helper, per-trait, shared), then variants / fields
pub open spec fn cmp_expected(source: ItemSource, h: &HelperAttributes, e: &DeriveEntry, op: CompareOp) -> St {
    let g = source_generics(source);
    let s1 = entry_phase(level_phase(start(g), h, DeriveItemKind::CompareOp(op)), e);
    source_phase(St { go: true, ..s1 }, s1.go, &gps_of(g), source, op)
}
}
#[verus_verify]
impl ItemSource<'_> {
//@ fn item_type/compare_op.rs ItemSource::kind
//@ end
//@ fn item_type/compare_op.rs ItemSource::ident
//@ end
//@ fn item_type/compare_op.rs ItemSource::generics
//@   spec r => ensures r == source_generics(*self)
//@ end
}
#[verus_verify]
impl<'a> VariantEntry<'a> {
    #[verifier::external_body]
    fn make_pat(&self, prefix: &str) -> TokenStream { unimplemented!() }
    #[verifier::external_body]
    fn make_pat_with_self_path(&self, prefix: &str, self_path: &Ident) -> TokenStream { unimplemented!() }
}
#[verus_verify]
impl HelperAttributesForCompareOp {
    // proved in unit cmp_flags (same contracts)
    #[verifier::external_body]
    #[verus_spec(r => ensures r is Err <==> bad_ignore(self, op), r matches Ok(b) ==> b == ign(self, op))]
    fn is_ignore(&self, op: CompareOp) -> Result<bool> { unimplemented!() }
    #[verifier::external_body]
    #[verus_spec(r => requires op is Ord || op is PartialOrd, ensures r is Err <==> bad_reverse(self, op), r matches Ok(b) ==> b == rev(self, op))]
    fn is_reverse(&self, op: CompareOp) -> Result<bool> { unimplemented!() }
}

//@ fn item_type/compare_op.rs build_ord_body
//@   attr #[verus_verify]
//@   spec r => ensures
//@     | r is Err <==> !source_accept(source, CompareOp::Ord),
//@     | r is Ok ==> same(final(wcb), source_phase(st(old(wcb), true), use_bounds, &old(wcb).gps, source, CompareOp::Ord)) && final(wcb).gps == old(wcb).gps
//@   rewrite R3
//@   before |fields: &[FieldEntry], ## #[verus_spec(r => ensures r is Err <==> !all_accept(fields@, fields@.len() as int, CompareOp::Ord), r is Ok ==> same(final(wcb), cmp_fields_phase(st(old(wcb), true), use_bounds, &old(wcb).gps, fields@, fields@.len() as int, CompareOp::Ord)), r is Ok ==> final(wcb).gps == old(wcb).gps)]
//@   before for field in fields ## #[verus_spec(it => invariant it.seq().len() == fields@.len(), forall|i: int| 0 <= i < fields@.len() ==> *it.seq()[i] == fields@[i], 0 <= it.index@ <= fields@.len(), op is Ord, kind == DeriveItemKind::CompareOp(CompareOp::Ord), wcb.gps == old(wcb).gps, all_accept(fields@, it.index@, CompareOp::Ord), same(wcb, cmp_fields_phase(st(old(wcb), true), use_bounds, &old(wcb).gps, fields@, it.index@, CompareOp::Ord)))]
//@   before let body = build_from_fields(&variant.fields ## proof! { if !all_accept(variant.fields@, variant.fields@.len() as int, CompareOp::Ord) { lemma_not_all(variants@, vi.index@ as int, CompareOp::Ord); } }
//@   before for variant in variants ## #[verus_spec(vi => invariant vi.seq().len() == variants@.len(), forall|i: int| 0 <= i < variants@.len() ==> *vi.seq()[i] == variants@[i], 0 <= vi.index@ <= variants@.len(), source matches ItemSource::Enum { variants: v2, .. } && v2@ == variants@, kind == DeriveItemKind::CompareOp(CompareOp::Ord), wcb.gps == old(wcb).gps,
//@     | forall|a: (&[FieldEntry], bool, &mut WhereClauseBuilder)| build_from_fields.requires(a),
//@     | forall|a: (&[FieldEntry], bool, &mut WhereClauseBuilder), r: Result<TokenStream>| #[trigger] build_from_fields.ensures(a, r) ==> ((r is Err <==> !all_accept(a.0@, a.0@.len() as int, CompareOp::Ord)) && (r is Ok ==> same(final(a.2), cmp_fields_phase(st(a.2, true), a.1, &a.2.gps, a.0@, a.0@.len() as int, CompareOp::Ord)) && final(a.2).gps == a.2.gps)),
//@     | all_variants_accept(variants@, vi.index@, CompareOp::Ord), same(wcb, cmp_variants_phase(st(old(wcb), true), use_bounds, &old(wcb).gps, variants@, vi.index@, CompareOp::Ord)))]
//@ end
//@ fn item_type/compare_op.rs build_partial_ord_body
//@   attr #[verus_verify]
//@   spec r => ensures
//@     | r is Err <==> !source_accept(source, CompareOp::PartialOrd),
//@     | r is Ok ==> same(final(wcb), source_phase(st(old(wcb), true), use_bounds, &old(wcb).gps, source, CompareOp::PartialOrd)) && final(wcb).gps == old(wcb).gps
//@   rewrite R3
//@   before |fields: &[FieldEntry], ## #[verus_spec(r => ensures r is Err <==> !all_accept(fields@, fields@.len() as int, CompareOp::PartialOrd), r is Ok ==> same(final(wcb), cmp_fields_phase(st(old(wcb), true), use_bounds, &old(wcb).gps, fields@, fields@.len() as int, CompareOp::PartialOrd)), r is Ok ==> final(wcb).gps == old(wcb).gps)]
//@   before for field in fields ## #[verus_spec(it => invariant it.seq().len() == fields@.len(), forall|i: int| 0 <= i < fields@.len() ==> *it.seq()[i] == fields@[i], 0 <= it.index@ <= fields@.len(), op is PartialOrd, kind == DeriveItemKind::CompareOp(CompareOp::PartialOrd), wcb.gps == old(wcb).gps, all_accept(fields@, it.index@, CompareOp::PartialOrd), same(wcb, cmp_fields_phase(st(old(wcb), true), use_bounds, &old(wcb).gps, fields@, it.index@, CompareOp::PartialOrd)))]
//@   before let body = build_from_fields(&variant.fields ## proof! { if !all_accept(variant.fields@, variant.fields@.len() as int, CompareOp::PartialOrd) { lemma_not_all(variants@, vi.index@ as int, CompareOp::PartialOrd); } }
//@   before for variant in variants ## #[verus_spec(vi => invariant vi.seq().len() == variants@.len(), forall|i: int| 0 <= i < variants@.len() ==> *vi.seq()[i] == variants@[i], 0 <= vi.index@ <= variants@.len(), source matches ItemSource::Enum { variants: v2, .. } && v2@ == variants@, kind == DeriveItemKind::CompareOp(CompareOp::PartialOrd), wcb.gps == old(wcb).gps,
//@     | forall|a: (&[FieldEntry], bool, &mut WhereClauseBuilder)| build_from_fields.requires(a),
//@     | forall|a: (&[FieldEntry], bool, &mut WhereClauseBuilder), r: Result<TokenStream>| #[trigger] build_from_fields.ensures(a, r) ==> ((r is Err <==> !all_accept(a.0@, a.0@.len() as int, CompareOp::PartialOrd)) && (r is Ok ==> same(final(a.2), cmp_fields_phase(st(a.2, true), a.1, &a.2.gps, a.0@, a.0@.len() as int, CompareOp::PartialOrd)) && final(a.2).gps == a.2.gps)),
//@     | all_variants_accept(variants@, vi.index@, CompareOp::PartialOrd), same(wcb, cmp_variants_phase(st(old(wcb), true), use_bounds, &old(wcb).gps, variants@, vi.index@, CompareOp::PartialOrd)))]
//@ end
//@ fn item_type/compare_op.rs build_partial_eq_body
//@   attr #[verus_verify]
//@   spec r => ensures
//@     | r is Err <==> !source_accept(source, CompareOp::PartialEq),
//@     | r is Ok ==> same(final(wcb), source_phase(st(old(wcb), true), use_bounds, &old(wcb).gps, source, CompareOp::PartialEq)) && final(wcb).gps == old(wcb).gps
//@   rewrite R3
//@   before |fields: &[FieldEntry], ## #[verus_spec(r => ensures r is Err <==> !all_accept(fields@, fields@.len() as int, CompareOp::PartialEq), r is Ok ==> same(final(wcb), cmp_fields_phase(st(old(wcb), true), use_bounds, &old(wcb).gps, fields@, fields@.len() as int, CompareOp::PartialEq)), r is Ok ==> final(wcb).gps == old(wcb).gps)]
//@   before for field in fields ## #[verus_spec(it => invariant it.seq().len() == fields@.len(), forall|i: int| 0 <= i < fields@.len() ==> *it.seq()[i] == fields@[i], 0 <= it.index@ <= fields@.len(), op is PartialEq, kind == DeriveItemKind::CompareOp(CompareOp::PartialEq), wcb.gps == old(wcb).gps, all_accept(fields@, it.index@, CompareOp::PartialEq), same(wcb, cmp_fields_phase(st(old(wcb), true), use_bounds, &old(wcb).gps, fields@, it.index@, CompareOp::PartialEq)))]
//@   before let body = build_from_fields(&variant.fields ## proof! { if !all_accept(variant.fields@, variant.fields@.len() as int, CompareOp::PartialEq) { lemma_not_all(variants@, vi.index@ as int, CompareOp::PartialEq); } }
//@   before for variant in variants ## #[verus_spec(vi => invariant vi.seq().len() == variants@.len(), forall|i: int| 0 <= i < variants@.len() ==> *vi.seq()[i] == variants@[i], 0 <= vi.index@ <= variants@.len(), source matches ItemSource::Enum { variants: v2, .. } && v2@ == variants@, kind == DeriveItemKind::CompareOp(CompareOp::PartialEq), wcb.gps == old(wcb).gps,
//@     | forall|a: (&[FieldEntry], bool, &mut WhereClauseBuilder)| build_from_fields.requires(a),
//@     | forall|a: (&[FieldEntry], bool, &mut WhereClauseBuilder), r: Result<TokenStream>| #[trigger] build_from_fields.ensures(a, r) ==> ((r is Err <==> !all_accept(a.0@, a.0@.len() as int, CompareOp::PartialEq)) && (r is Ok ==> same(final(a.2), cmp_fields_phase(st(a.2, true), a.1, &a.2.gps, a.0@, a.0@.len() as int, CompareOp::PartialEq)) && final(a.2).gps == a.2.gps)),
//@     | all_variants_accept(variants@, vi.index@, CompareOp::PartialEq), same(wcb, cmp_variants_phase(st(old(wcb), true), use_bounds, &old(wcb).gps, variants@, vi.index@, CompareOp::PartialEq)))]
//@ end
//@ fn item_type/compare_op.rs build_eq_body
//@   attr #[verus_verify]
//@   spec r => ensures
//@     | r is Err <==> !source_accept(source, CompareOp::Eq),
//@     | r is Ok ==> same(final(wcb), source_phase(st(old(wcb), true), use_bounds, &old(wcb).gps, source, CompareOp::Eq)) && final(wcb).gps == old(wcb).gps
//@   rewrite R3
//@   before |fields: &[FieldEntry], ## #[verus_spec(r => ensures r is Err <==> !all_accept(fields@, fields@.len() as int, CompareOp::Eq), r is Ok ==> same(final(wcb), cmp_fields_phase(st(old(wcb), true), use_bounds, &old(wcb).gps, fields@, fields@.len() as int, CompareOp::Eq)), r is Ok ==> final(wcb).gps == old(wcb).gps)]
//@   before for field in fields ## #[verus_spec(it => invariant it.seq().len() == fields@.len(), forall|i: int| 0 <= i < fields@.len() ==> *it.seq()[i] == fields@[i], 0 <= it.index@ <= fields@.len(), op is Eq, kind == DeriveItemKind::CompareOp(CompareOp::Eq), wcb.gps == old(wcb).gps, all_accept(fields@, it.index@, CompareOp::Eq), same(wcb, cmp_fields_phase(st(old(wcb), true), use_bounds, &old(wcb).gps, fields@, it.index@, CompareOp::Eq)))]
//@   before let body = build_from_fields(&variant.fields ## proof! { if !all_accept(variant.fields@, variant.fields@.len() as int, CompareOp::Eq) { lemma_not_all(variants@, vi.index@ as int, CompareOp::Eq); } }
//@   before for variant in variants ## #[verus_spec(vi => invariant vi.seq().len() == variants@.len(), forall|i: int| 0 <= i < variants@.len() ==> *vi.seq()[i] == variants@[i], 0 <= vi.index@ <= variants@.len(), source matches ItemSource::Enum { variants: v2, .. } && v2@ == variants@, kind == DeriveItemKind::CompareOp(CompareOp::Eq), wcb.gps == old(wcb).gps,
//@     | forall|a: (&[FieldEntry], bool, &mut WhereClauseBuilder)| build_from_fields.requires(a),
//@     | forall|a: (&[FieldEntry], bool, &mut WhereClauseBuilder), r: Result<TokenStream>| #[trigger] build_from_fields.ensures(a, r) ==> ((r is Err <==> !all_accept(a.0@, a.0@.len() as int, CompareOp::Eq)) && (r is Ok ==> same(final(a.2), cmp_fields_phase(st(a.2, true), a.1, &a.2.gps, a.0@, a.0@.len() as int, CompareOp::Eq)) && final(a.2).gps == a.2.gps)),
//@     | all_variants_accept(variants@, vi.index@, CompareOp::Eq), same(wcb, cmp_variants_phase(st(old(wcb), true), use_bounds, &old(wcb).gps, variants@, vi.index@, CompareOp::Eq)))]
//@ end
//@ fn item_type/compare_op.rs build_hash_body
//@   attr #[verus_verify]
//@   spec r => ensures
//@     | r is Err <==> !source_accept(source, CompareOp::Hash),
//@     | r is Ok ==> same(final(wcb), source_phase(st(old(wcb), true), use_bounds, &old(wcb).gps, source, CompareOp::Hash)) && final(wcb).gps == old(wcb).gps
//@   rewrite R3
//@   before |fields: &[FieldEntry], ## #[verus_spec(r => ensures r is Err <==> !all_accept(fields@, fields@.len() as int, CompareOp::Hash), r is Ok ==> same(final(wcb), cmp_fields_phase(st(old(wcb), true), use_bounds, &old(wcb).gps, fields@, fields@.len() as int, CompareOp::Hash)), r is Ok ==> final(wcb).gps == old(wcb).gps)]
//@   before for field in fields ## #[verus_spec(it => invariant it.seq().len() == fields@.len(), forall|i: int| 0 <= i < fields@.len() ==> *it.seq()[i] == fields@[i], 0 <= it.index@ <= fields@.len(), op is Hash, kind == DeriveItemKind::CompareOp(CompareOp::Hash), wcb.gps == old(wcb).gps, all_accept(fields@, it.index@, CompareOp::Hash), same(wcb, cmp_fields_phase(st(old(wcb), true), use_bounds, &old(wcb).gps, fields@, it.index@, CompareOp::Hash)))]
//@   before let body = build_from_fields(&variant.fields ## proof! { if !all_accept(variant.fields@, variant.fields@.len() as int, CompareOp::Hash) { lemma_not_all(variants@, vi.index@ as int, CompareOp::Hash); } }
//@   before for variant in variants ## #[verus_spec(vi => invariant vi.seq().len() == variants@.len(), forall|i: int| 0 <= i < variants@.len() ==> *vi.seq()[i] == variants@[i], 0 <= vi.index@ <= variants@.len(), source matches ItemSource::Enum { variants: v2, .. } && v2@ == variants@, kind == DeriveItemKind::CompareOp(CompareOp::Hash), wcb.gps == old(wcb).gps,
//@     | forall|a: (&[FieldEntry], bool, &mut WhereClauseBuilder)| build_from_fields.requires(a),
//@     | forall|a: (&[FieldEntry], bool, &mut WhereClauseBuilder), r: Result<TokenStream>| #[trigger] build_from_fields.ensures(a, r) ==> ((r is Err <==> !all_accept(a.0@, a.0@.len() as int, CompareOp::Hash)) && (r is Ok ==> same(final(a.2), cmp_fields_phase(st(a.2, true), a.1, &a.2.gps, a.0@, a.0@.len() as int, CompareOp::Hash)) && final(a.2).gps == a.2.gps)),
//@     | all_variants_accept(variants@, vi.index@, CompareOp::Hash), same(wcb, cmp_variants_phase(st(old(wcb), true), use_bounds, &old(wcb).gps, variants@, vi.index@, CompareOp::Hash)))]
//@ end
//@ fn item_type/compare_op.rs build_compare_op
//@   attr #[verus_verify]
//@   spec r => ensures r is Err <==> !source_accept(source, op)
//@   before let wheres = wcb.build( ## proof! { assert(same(&wcb, cmp_expected(source, hattrs, e, op))); }
//@ end
fn main() {}

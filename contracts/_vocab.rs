// ---- spec vocabulary, written from the property statements and the documentation tables (not from the code) ----
verus! {
// doc table "which helper attribute affects which trait".  (The table also ticks partial_eq -> Eq; the repository's own
// compile-fail cases eq_with_partial_eq_{key,by,ignore} pin the opposite, and Eq has no behaviour of its own to customise,
// so the vocabulary follows the cases.)
pub open spec fn affects(src: CompareOp, tgt: CompareOp) -> bool {
    match tgt {
        CompareOp::Ord => src == CompareOp::Ord,
        CompareOp::PartialOrd => src == CompareOp::PartialOrd || src == CompareOp::Ord,
        CompareOp::Eq => src == CompareOp::Eq || src == CompareOp::Ord,
        CompareOp::PartialEq => src != CompareOp::Hash,
        CompareOp::Hash => src == CompareOp::Hash || src == CompareOp::Eq || src == CompareOp::Ord,
    }
}
pub open spec fn attr_of(h: &HelperAttributesForCompareOp, op: CompareOp) -> &HelperAttributeForCompareOp {
    match op {
        CompareOp::Ord => &h.ord,
        CompareOp::PartialOrd => &h.partial_ord,
        CompareOp::Eq => &h.eq,
        CompareOp::PartialEq => &h.partial_eq,
        CompareOp::Hash => &h.hash,
    }
}
pub open spec fn ignored(a: &HelperAttributeForCompareOp) -> bool { a.ignore.span.is_some() }
pub open spec fn reversed(a: &HelperAttributeForCompareOp) -> bool { a.reverse.span.is_some() }
// "ignore" is in force for trait `tgt` iff some attribute that affects `tgt` carries it
pub open spec fn ign(h: &HelperAttributesForCompareOp, tgt: CompareOp) -> bool {
    (affects(CompareOp::Ord, tgt) && ignored(&h.ord))
    || (affects(CompareOp::PartialOrd, tgt) && ignored(&h.partial_ord))
    || (affects(CompareOp::Eq, tgt) && ignored(&h.eq))
    || (affects(CompareOp::PartialEq, tgt) && ignored(&h.partial_eq))
    || (affects(CompareOp::Hash, tgt) && ignored(&h.hash))
}
// C02/C05: ignore must be uniform over PartialEq/Eq/PartialOrd/Ord; Hash may ignore more than PartialEq, not less.
pub open spec fn bad_ignore(h: &HelperAttributesForCompareOp, tgt: CompareOp) -> bool {
    ign(h, CompareOp::PartialEq) && !ign(h, tgt)
}
pub open spec fn rev(h: &HelperAttributesForCompareOp, tgt: CompareOp) -> bool {
    (affects(CompareOp::Ord, tgt) && reversed(&h.ord)) || (affects(CompareOp::PartialOrd, tgt) && reversed(&h.partial_ord))
}
// `partial_ord(reverse)` while Ord is derived would make partial_cmp and cmp disagree
pub open spec fn bad_reverse(h: &HelperAttributesForCompareOp, tgt: CompareOp) -> bool {
    tgt == CompareOp::Ord && reversed(&h.partial_ord)
}
pub open spec fn custom(a: &HelperAttributeForCompareOp) -> bool { a.by.is_some() || a.key.is_some() }
pub open spec fn any_custom(h: &HelperAttributesForCompareOp) -> bool {
    custom(&h.ord) || custom(&h.partial_ord) || custom(&h.eq) || custom(&h.partial_eq) || custom(&h.hash)
}
// an attribute's by/key is usable for `tgt` iff the attribute affects tgt; for Hash, `by` of eq/ord has the wrong
// signature ("#[hash(by = ...)] only changes the behavior of Hash"), so only their `key` counts
pub open spec fn usable(h: &HelperAttributesForCompareOp, a: CompareOp, tgt: CompareOp) -> bool {
    affects(a, tgt) && (if tgt == CompareOp::Hash && a != CompareOp::Hash { attr_of(h, a).key.is_some() } else { custom(attr_of(h, a)) })
}
// documented precedence "more specific first": partial_eq, eq, partial_ord, ord (hash first for Hash), restricted to affects
pub open spec fn sel(h: &HelperAttributesForCompareOp, tgt: CompareOp) -> Option<CompareOp> {
    if usable(h, CompareOp::Hash, tgt) { Some(CompareOp::Hash) }
    else if usable(h, CompareOp::PartialEq, tgt) { Some(CompareOp::PartialEq) }
    else if usable(h, CompareOp::Eq, tgt) { Some(CompareOp::Eq) }
    else if usable(h, CompareOp::PartialOrd, tgt) { Some(CompareOp::PartialOrd) }
    else if usable(h, CompareOp::Ord, tgt) { Some(CompareOp::Ord) }
    else { None }
}
// "customising one trait with key/by while a related derived trait would fall back to its default field comparison"
pub open spec fn bad_default(h: &HelperAttributesForCompareOp, tgt: CompareOp) -> bool {
    sel(h, tgt) is None && any_custom(h)
}
// the macro accepts trait `tgt` for this field
pub open spec fn accept(h: &HelperAttributesForCompareOp, tgt: CompareOp) -> bool {
    !bad_ignore(h, tgt) && !(is_ord_like(tgt) && bad_reverse(h, tgt)) && (ign(h, tgt) || !bad_default(h, tgt))
}
pub open spec fn is_ord_like(tgt: CompareOp) -> bool { tgt == CompareOp::Ord || tgt == CompareOp::PartialOrd }
// dataflow: the emitted per-field expression mentions exactly the user expression the precedence selects
// (inside one attribute `by` is taken before `key`; eq/ord `by` cannot feed Hash)
pub open spec fn sel_ok(h: &HelperAttributesForCompareOp, tgt: CompareOp, t: &TokenStream) -> bool {
    match sel(h, tgt) {
        Some(a) => {
            let at = attr_of(h, a);
            let by_ok = !(tgt == CompareOp::Hash && a != CompareOp::Hash);
            if by_ok && at.by.is_some() { at.by matches Some(b) && uses(t) =~= set![expr_id(&b)] }
            else { at.key matches Some(k) && uses(t) =~= set![tmpl_id(&k)] }
        }
        None => uses(t) =~= Set::<int>::empty(),
    }
}
// C17: "every field that takes part in equality - or the value of its key expression - has a type implementing Eq; fields that are
// ignored or compared with `by` are exempt": the assertion is about what `==` compares, i.e. what PartialEq's precedence selects
pub open spec fn eq_assert_uses(h: &HelperAttributesForCompareOp) -> Set<int> {
    match sel(h, CompareOp::PartialEq) {
        Some(a) => {
            let at = attr_of(h, a);
            if at.by.is_some() { Set::<int>::empty() } else { match at.key { Some(k) => set![tmpl_id(&k)], None => Set::<int>::empty() } }
        }
        None => Set::<int>::empty(),     // the field itself
    }
}
pub open spec fn eq_checker_ok(h: &HelperAttributesForCompareOp, t: &TokenStream) -> bool {
    uses(t) =~= (if sel(h, CompareOp::Eq) is None { Set::<int>::empty() } else { eq_assert_uses(h) })
}
}

// ---- C03/C04 reference: the documented nine-level walk, written from doc 'Specify trait bound' and the property text ----
verus! {
pub uninterp spec fn declared_preds(g: &Generics) -> Seq<WherePredicate>;
pub uninterp spec fn mentions(g: &GenericParamSet, ty: &Type) -> bool;     // field type mentions a type/const parameter (layer B checks the visitor)
pub uninterp spec fn gps_of(g: &Generics) -> GenericParamSet;

pub struct St { pub types: Seq<Type>, pub preds: Seq<WherePredicate>, pub go: bool }
pub open spec fn st(w: &WhereClauseBuilder, go: bool) -> St { St { types: w.types@, preds: w.preds@, go } }
// one level: reached iff go; contributes its predicates verbatim and its types; continues iff it contains `..`
pub open spec fn step(s: St, b: &Bounds) -> St {
    if s.go { St { types: s.types + b.ty@, preds: s.preds + b.pred@, go: b.default } } else { s }
}
// per-trait argument, then shared argument of one derive_ex entry
pub open spec fn entry_phase(s: St, e: &DeriveEntry) -> St { step(step(s, &e.bounds_this), &e.bounds_common) }
pub open spec fn items_phase(s: St, h: &HelperAttributes, kind: DeriveItemKind) -> St {
    if s.go && h.items.map().contains_key(kind) { entry_phase(s, &h.items.map()[kind]) } else { s }
}
pub open spec fn step_if(s: St, h: &HelperAttributesForCompareOp, src: CompareOp, tgt: CompareOp) -> St {
    if affects(src, tgt) { step(s, &attr_of(h, src).bounds) } else { s }
}
// comparison helper attributes, most specific first: hash, partial_eq, eq, partial_ord, ord (restricted to those affecting tgt)
pub open spec fn helper_cmp(s: St, h: &HelperAttributesForCompareOp, tgt: CompareOp) -> St {
    step_if(step_if(step_if(step_if(step_if(s, h, CompareOp::Hash, tgt), h, CompareOp::PartialEq, tgt), h, CompareOp::Eq, tgt), h, CompareOp::PartialOrd, tgt), h, CompareOp::Ord, tgt)
}
pub open spec fn helper_phase(s: St, h: &HelperAttributes, kind: DeriveItemKind) -> St {
    if !s.go { s } else {
        match kind {
            DeriveItemKind::CompareOp(op) => helper_cmp(s, &h.cmp, op),
            DeriveItemKind::Debug => step(s, &h.debug.bounds),
            DeriveItemKind::Default => match h.default { Some(a) => step(s, &a.bounds), None => s },
            _ => s,
        }
    }
}
// one placement (type / variant / field): helper attribute, per-trait argument, shared argument
pub open spec fn level_phase(s: St, h: &HelperAttributes, kind: DeriveItemKind) -> St { items_phase(helper_phase(s, h, kind), h, kind) }
// the default field bound applies only if the end is reached and the field type mentions a parameter
pub open spec fn field_default(s: St, g: &GenericParamSet, ty: &Type) -> St {
    if s.go && mentions(g, ty) { St { types: s.types.push(*ty), ..s } } else { s }
}
// a stop on a field affects only that field: the field starts from the enclosing `go`
pub open spec fn field_phase(s: St, go: bool, g: &GenericParamSet, f: &FieldEntry, kind: DeriveItemKind) -> St {
    let s1 = level_phase(St { go, ..s }, &f.hattrs, kind);
    field_default(s1, g, &f.field.ty)
}
pub open spec fn fields_phase(s: St, go: bool, g: &GenericParamSet, fs: Seq<FieldEntry>, n: int, kind: DeriveItemKind) -> St
    decreases n
{
    if n <= 0 { s } else { field_phase(fields_phase(s, go, g, fs, n - 1, kind), go, g, &fs[n - 1], kind) }
}
pub open spec fn variant_phase(s: St, go: bool, g: &GenericParamSet, v: &VariantEntry, kind: DeriveItemKind) -> St {
    let s1 = level_phase(St { go, ..s }, &v.hattrs, kind);
    fields_phase(s1, s1.go, g, v.fields@, v.fields@.len() as int, kind)
}
pub open spec fn variants_phase(s: St, go: bool, g: &GenericParamSet, vs: Seq<VariantEntry>, n: int, kind: DeriveItemKind) -> St
    decreases n
{
    if n <= 0 { s } else { variant_phase(variants_phase(s, go, g, vs, n - 1, kind), go, g, &vs[n - 1], kind) }
}
// type level for traits without helper attributes (Copy, Clone, operators, Deref): per-trait, shared
pub open spec fn start(g: &Generics) -> St { St { types: Seq::empty(), preds: declared_preds(g), go: true } }
pub open spec fn type_phase(g: &Generics, h: &HelperAttributes, e: &DeriveEntry, kind: DeriveItemKind) -> St {
    entry_phase(helper_phase(start(g), h, kind), e)
}
pub open spec fn same(w: &WhereClauseBuilder, s: St) -> bool { w.types@ =~= s.types && w.preds@ =~= s.preds }
pub open spec fn has_helper(kind: DeriveItemKind) -> bool { kind is CompareOp || kind is Debug || kind is Default }
}

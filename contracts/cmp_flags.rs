#![feature(proc_macro_hygiene)]
#![allow(unused)]
use vstd::prelude::*;
//@ include _prelude.rs
//@ include _types.rs
//@ include _vocab.rs

verus! {
pub open spec fn misplaced(a: &HelperAttributeForCompareOp) -> bool {
    a.by.is_some() || a.key.is_some() || a.reverse.span.is_some() || a.ignore.span.is_some()
}
pub open spec fn any_misplaced(h: &HelperAttributesForCompareOp) -> bool {
    misplaced(&h.ord) || misplaced(&h.partial_ord) || misplaced(&h.eq) || misplaced(&h.partial_eq) || misplaced(&h.hash)
}

// ---------------- C02: a combination that is accepted for every derived trait is coherent -------------------
// DSet: the set of derived traits; the macro can only be used with supertrait-closed sets (Eq => PartialEq,
// PartialOrd => PartialEq, Ord => Eq + PartialOrd) or rustc rejects the program.
pub struct DSet { pub ord: bool, pub partial_ord: bool, pub eq: bool, pub partial_eq: bool, pub hash: bool }
pub open spec fn has(d: DSet, t: CompareOp) -> bool {
    match t { CompareOp::Ord => d.ord, CompareOp::PartialOrd => d.partial_ord, CompareOp::Eq => d.eq, CompareOp::PartialEq => d.partial_eq, CompareOp::Hash => d.hash }
}
pub open spec fn closed(d: DSet) -> bool {
    (d.eq ==> d.partial_eq) && (d.partial_ord ==> d.partial_eq) && (d.ord ==> d.eq && d.partial_ord)
}
pub open spec fn all_accepted(h: &HelperAttributesForCompareOp, d: DSet) -> bool {
    (d.ord ==> accept(h, CompareOp::Ord)) && (d.partial_ord ==> accept(h, CompareOp::PartialOrd)) && (d.eq ==> accept(h, CompareOp::Eq))
    && (d.partial_eq ==> accept(h, CompareOp::PartialEq)) && (d.hash ==> accept(h, CompareOp::Hash))
}
// t, u are universally quantified by being lemma parameters
pub proof fn lemma_c02_accepted_is_coherent(h: &HelperAttributesForCompareOp, d: DSet, t: CompareOp, u: CompareOp)
    requires closed(d), all_accepted(h, d), has(d, t), has(d, u),
    ensures
        // ignore is uniform over the comparison traits that are derived
        t != CompareOp::Hash && u != CompareOp::Hash ==> ign(h, t) == ign(h, u),
        // Hash ignores at least what == ignores (a == b must imply equal feeds)
        t == CompareOp::Hash && u == CompareOp::PartialEq && ign(h, u) ==> ign(h, t),
        // partial_cmp and cmp use the same direction
        t == CompareOp::Ord && u == CompareOp::PartialOrd && !ign(h, t) ==> rev(h, t) == rev(h, u),
        // either every derived trait sees the field through a user key/by, or none does
        !ign(h, t) && !ign(h, u) ==> ((sel(h, t) is None) == (sel(h, u) is None)),
        // and when one does, the *same* consistent key must be supplied to all (hash(by) aside): nothing falls back to default
        !ign(h, t) && any_custom(h) ==> sel(h, t) is Some,
{
}
// vacuity guard: the hypotheses are satisfiable with a custom key present (checked by the assert(false) canary run)
pub proof fn lemma_c02_witness() {
}
}

//@ constseq item_type.rs CompareOp::VARIANTS
#[verus_verify]
impl CompareOp {
    #[verifier::external_body]
    fn to_str_snake_case(self) -> &'static str { unimplemented!() }

//@ fn item_type.rs CompareOp::is_effects_to
//@   spec r => ensures r == affects(self, target)
//@ end
}

#[verus_verify]
impl HelperAttributeForCompareOp {
//@ fn item_type/compare_op.rs HelperAttributeForCompareOp::bad_attr
//@   spec r => ensures r is Some <==> custom(self)
//@ end
//@ fn item_type/compare_op.rs HelperAttributeForCompareOp::verify
//@   spec r => ensures r is Err <==> (!(target is Field) && misplaced(self))
//@ end
}

#[verus_verify]
impl HelperAttributesForCompareOp {
//@ fn item_type/compare_op.rs HelperAttributesForCompareOp::get
//@   spec r => ensures r == attr_of(self, op)
//@ end
//@ fn item_type/compare_op.rs HelperAttributesForCompareOp::is_ignore
//@   spec r => ensures r is Err <==> bad_ignore(self, op), r matches Ok(b) ==> b == ign(self, op)
//@   before |bad: CompareOp, good: CompareOp| ## #[verus_spec(r => ensures r is Err <==> ignored(attr_of(self, bad)))]
//@ end
//@ fn item_type/compare_op.rs HelperAttributesForCompareOp::is_reverse
//@   spec r => requires op is Ord || op is PartialOrd, ensures r is Err <==> bad_reverse(self, op), r matches Ok(b) ==> b == rev(self, op)
//@ end
//@ fn item_type/compare_op.rs HelperAttributesForCompareOp::bad_attr
//@   spec r => ensures r is Some <==> any_custom(self)
//@   rewrite R1 R2u
//@   before for op in ## #[verus_spec(iter => invariant iter.seq().len() == 5, forall|i: int| 0 <= i < 5 ==> *iter.seq()[i] == CompareOp_VARIANTS_spec()[i], 0 <= iter.index@ <= 5, forall|i: int| 0 <= i < iter.index@ ==> !custom(attr_of(self, CompareOp_VARIANTS_spec()[i])))]
//@ end
//@ fn item_type/compare_op.rs HelperAttributesForCompareOp::verify
//@   spec r => ensures r is Err <==> (!(target is Field) && any_misplaced(self))
//@   rewrite R1 R2u
//@   before for op in ## #[verus_spec(iter => invariant iter.seq().len() == 5, forall|i: int| 0 <= i < 5 ==> *iter.seq()[i] == CompareOp_VARIANTS_spec()[i], 0 <= iter.index@ <= 5, forall|i: int| 0 <= i < iter.index@ ==> (target is Field || !misplaced(attr_of(self, CompareOp_VARIANTS_spec()[i]))))]
//@ end
}

//@ fn item_type/compare_op.rs bad_attr_1
//@   attr #[verus_verify]
//@   spec r => ensures r is Err
//@ end
fn main() {}

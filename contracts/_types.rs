// ---- more opaque dependency types needed by the copied type definitions ----
verus! {
#[verifier::external_body]
pub struct Generics { _p: u8 }
#[verifier::external_body]
pub struct GenericParamSet { _p: u8 }            // syn_utils.rs: HashSet<Ident> + syn visitor (out of reach; layer B)
// syn::Field / syn::Variant / syn::Fields stand-ins: only the parts the copied functions read
pub struct Field { pub ident: Option<Ident>, pub ty: Type }
#[verifier::external_body]
pub struct FieldsNamed { _p: u8 }
#[verifier::external_body]
pub struct FieldsUnnamed { _p: u8 }
pub enum Fields { Named(FieldsNamed), Unnamed(FieldsUnnamed), Unit }
pub struct Variant { pub ident: Ident, pub fields: Fields }
// std HashMap as a partial map (only `get` is used by the copied code)
#[verifier::external_body]
#[verifier::reject_recursive_types(K)]
#[verifier::reject_recursive_types(V)]
pub struct HashMap<K, V> { _k: core::marker::PhantomData<(K, V)> }
impl<K, V> HashMap<K, V> {
    pub uninterp spec fn map(&self) -> Map<K, V>;
    #[verifier::external_body]
    pub fn get(&self, k: &K) -> (r: Option<&V>)
        ensures r == (if self.map().contains_key(*k) { Some(&self.map()[*k]) } else { None::<&V> })
    { unimplemented!() }
}
impl Clone for Type { #[verifier::external_body] fn clone(&self) -> (r: Type) ensures r == *self { unimplemented!() } }
impl Clone for WherePredicate { #[verifier::external_body] fn clone(&self) -> (r: WherePredicate) ensures r == *self { unimplemented!() } }
}
//@ enum common.rs BinaryOp
//@ enum item_type.rs UnaryOp
//@ enum item_type.rs CompareOp
//@ enum item_type.rs DeriveItemKind
//@ enum item_type.rs AttributeTarget
//@ struct bound.rs Bounds
//@ struct bound.rs WhereClauseBuilder
//@ struct item_type.rs DeriveEntry
//@ struct item_type.rs HelperAttributeForDebug
//@ struct item_type.rs HelperAttributeForDefault
//@ struct item_type/compare_op.rs HelperAttributeForCompareOp
//@ struct item_type/compare_op.rs HelperAttributesForCompareOp
//@ struct item_type.rs HelperAttributes
//@ struct item_type.rs FieldEntry
//@ struct item_type.rs VariantEntry
//@ struct item_type.rs HelperAttributeKinds
//@ enum item_type/compare_op.rs ItemSourceKind

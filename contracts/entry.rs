#![feature(proc_macro_hygiene)]
#![allow(unused)]
use vstd::prelude::*;
//@ include _prelude.rs
//@ include _types.rs
//@ include _vocab.rs

verus! {
pub uninterp spec fn is_error_stream(t: &TokenStream) -> bool;     // a `compile_error!{..}` invocation
impl Error {
    #[verifier::external_body]
    pub fn new(span: Span, msg: &'static str) -> Error { unimplemented!() }
    #[verifier::external_body]
    pub fn to_compile_error(&self) -> (r: TokenStream) ensures is_error_stream(&r) { unimplemented!() }
}
}
#[verus_verify]
impl DeriveEntry {
// C19 / C05 (error isolation): a failing entry becomes an error stream of its own, it is not propagated
//@ fn item_type.rs DeriveEntry::apply_dump
//@   spec r => ensures
//@     | !self.dump ==> (result matches Ok(ts) ==> r == ts),
//@     | (result is Err || self.dump) ==> is_error_stream(&r)
//@ end
}

pub mod token {
    use vstd::prelude::*;
    verus! {
    #[verifier::external_body]
    pub struct Paren { _p: u8 }
    }
}
verus! {
#[verifier::external_body]
pub struct DotDot { _p: u8 }
pub struct NameArgs<T> { pub name_span: Span, pub args: T }
impl Ident {
    #[verifier::external_body]
    pub fn span(&self) -> Span { unimplemented!() }
}
pub uninterp spec fn kind_of(i: &Ident) -> DeriveItemKind;
pub uninterp spec fn bounds_of(b: &Option<NameArgs<Vec<Bound>>>) -> Bounds;
pub uninterp spec fn empty_bounds() -> Bounds;
// one derive entry per listed trait, in list order; dump of an entry = shared dump of its list || its own dump
pub open spec fn item_dump(i: &DeriveItem) -> bool { i.args matches DeriveItemArgsOption::Some { _paren, args } && args.dump }
pub open spec fn item_bounds(i: &DeriveItem) -> Bounds { match i.args { DeriveItemArgsOption::Some { _paren, args } => bounds_of(&args.bound), DeriveItemArgsOption::None => empty_bounds() } }
pub open spec fn entry_of(a: &Args, i: &DeriveItem, e: &DeriveEntry) -> bool {
    e.kind == kind_of(&i.trait_ident) && e.dump == (a.dump || item_dump(i)) && e.bounds_this == item_bounds(i) && e.bounds_common == bounds_of(&a.bound)
}
pub open spec fn flat_len(al: Seq<Args>, n: int) -> int decreases n { if n <= 0 { 0 } else { flat_len(al, n - 1) + al[n - 1].items@.len() } }
// result k is the entry of (list a, item j) where k = flat_len(al, a) + j
pub open spec fn well_formed(al: Seq<Args>, n: int, m: int, v: Seq<DeriveEntry>) -> bool {
    v.len() == flat_len(al, n) + m
    && (forall|a: int, j: int| 0 <= a < n && 0 <= j < al[a].items@.len() ==> entry_of(&al[a], &al[a].items@[j], #[trigger] &v[flat_len(al, a) + j]))
    && (forall|j: int| 0 <= j < m ==> entry_of(&al[n], &al[n].items@[j], #[trigger] &v[flat_len(al, n) + j]))
}
}
verus! {
pub proof fn lemma_flat_step(al: Seq<Args>, a: int, n: int)
    requires 0 <= a < n,
    ensures flat_len(al, a) + al[a].items@.len() <= flat_len(al, n), flat_len(al, a) >= 0,
    decreases n
{
    lemma_flat_nonneg(al, a);
    if a < n - 1 { lemma_flat_step(al, a, n - 1); lemma_flat_nonneg(al, n - 1); }
}
pub proof fn lemma_flat_nonneg(al: Seq<Args>, n: int) ensures flat_len(al, n) >= 0 decreases n { if n > 0 { lemma_flat_nonneg(al, n - 1); } }
pub open spec fn flat_mono(al: Seq<Args>, n: int) -> bool {
    forall|a: int| 0 <= a < n ==> #[trigger] flat_len(al, a) + al[a].items@.len() <= flat_len(al, n) && flat_len(al, a) >= 0
}
pub proof fn lemma_flat_mono(al: Seq<Args>, n: int) ensures flat_mono(al, n), flat_len(al, n) >= 0 {
    lemma_flat_nonneg(al, n);
    assert forall|a: int| 0 <= a < n implies #[trigger] flat_len(al, a) + al[a].items@.len() <= flat_len(al, n) && flat_len(al, a) >= 0 by { lemma_flat_step(al, a, n); }
}
}
macro_rules! Token { ($($t:tt)*) => { DotDot }; }
//@ enum bound.rs Bound noderive
//@ struct item_type.rs Args
//@ struct item_type.rs DeriveItem
//@ struct item_type.rs DeriveItemArgs
//@ enum item_type.rs DeriveItemArgsOption
#[verus_verify]
impl Bounds {
    #[verifier::external_body]
    #[verus_spec(r => ensures r == empty_bounds())]
    pub fn new() -> Self { unimplemented!() }
    // proved in unit `bounds`; here only its being a function of the argument matters
    #[verifier::external_body]
    #[verus_spec(r => ensures r == bounds_of(bound))]
    pub fn from(bound: &Option<NameArgs<Vec<Bound>>>) -> Self { unimplemented!() }
}
#[verus_verify]
impl DeriveItemKind {
    #[verifier::external_body]
    #[verus_spec(r => ensures r matches Ok(k) ==> k == kind_of(s))]
    fn from_ident(s: &Ident) -> Result<Self> { unimplemented!() }
}
#[verus_verify]
impl DeriveEntry {
// C15 / C19: entries are the flattening of the argument lists in order; `dump` is per entry (shared flag of its own list or its own flag)
//@ fn item_type.rs DeriveEntry::from_args_list
//@   spec r => ensures r matches Ok(v) ==> well_formed(args_list@, args_list@.len() as int, 0, v@)
//@   rewrite R10
//@   before for a in args_list ## #[verus_spec(oi => invariant oi.seq().len() == args_list@.len(), forall|i: int| 0 <= i < args_list@.len() ==> *oi.seq()[i] == args_list@[i], 0 <= oi.index@ <= args_list@.len(), well_formed(args_list@, oi.index@, 0, results@))]
//@   before let (dump, bounds_this) ## proof! { lemma_flat_mono(args_list@, oi.index@ as int); }
//@   before for item in &a.items ## #[verus_spec(ii => invariant ii.seq().len() == a.items@.len(), forall|i: int| 0 <= i < a.items@.len() ==> *ii.seq()[i] == a.items@[i], 0 <= ii.index@ <= a.items@.len(), 0 <= oi.index@ < args_list@.len(), *a == args_list@[oi.index@ as int], well_formed(args_list@, oi.index@, ii.index@, results@))]
//@ end
}
fn main() {}

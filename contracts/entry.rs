#![feature(proc_macro_hygiene)]
#![allow(unused)]
use vstd::prelude::*;
//@ include _prelude.rs
//@ include _types.rs
//@ include _vocab.rs

verus! {
pub uninterp spec fn is_error_stream(t: &TokenStream) -> bool;     // a `compile_error!{..}` invocation
impl Error {
    #[verifier::external_body]
    pub fn new(span: Span, msg: &'static str) -> Error { unimplemented!() }
    #[verifier::external_body]
    pub fn to_compile_error(&self) -> (r: TokenStream) ensures is_error_stream(&r) { unimplemented!() }
}
}
#[verus_verify]
impl DeriveEntry {
// C19 / C05 (error isolation): a failing entry becomes an error stream of its own, it is not propagated
//@ fn item_type.rs DeriveEntry::apply_dump
//@   spec r => ensures
//@     | !self.dump ==> (result matches Ok(ts) ==> r == ts),
//@     | (result is Err || self.dump) ==> is_error_stream(&r)
//@ end
}
fn main() {}

#![feature(proc_macro_hygiene)]
#![allow(unused)]
use vstd::prelude::*;
//@ include _prelude.rs
//@ include _types.rs
//@ include _vocab.rs

verus! {
// C14/C15/C01: a comparison helper attribute belongs to the derived traits iff some derived trait is affected by it (doc table)
pub open spec fn derived_cmp(k: &HelperAttributeKinds, t: CompareOp) -> bool {
    match t { CompareOp::Ord => k.ord, CompareOp::PartialOrd => k.partial_ord, CompareOp::Eq => k.eq, CompareOp::PartialEq => k.partial_eq, CompareOp::Hash => k.hash }
}
pub open spec fn owned_cmp(k: &HelperAttributeKinds, a: CompareOp) -> bool {
    (k.ord && affects(a, CompareOp::Ord)) || (k.partial_ord && affects(a, CompareOp::PartialOrd)) || (k.eq && affects(a, CompareOp::Eq))
    || (k.partial_eq && affects(a, CompareOp::PartialEq)) || (k.hash && affects(a, CompareOp::Hash))
}
pub open spec fn mark(k: HelperAttributeKinds, kind: DeriveItemKind) -> HelperAttributeKinds {
    match kind {
        DeriveItemKind::Default => HelperAttributeKinds { default: true, ..k },
        DeriveItemKind::Debug => HelperAttributeKinds { debug: true, ..k },
        DeriveItemKind::CompareOp(CompareOp::Ord) => HelperAttributeKinds { ord: true, ..k },
        DeriveItemKind::CompareOp(CompareOp::PartialOrd) => HelperAttributeKinds { partial_ord: true, ..k },
        DeriveItemKind::CompareOp(CompareOp::Eq) => HelperAttributeKinds { eq: true, ..k },
        DeriveItemKind::CompareOp(CompareOp::PartialEq) => HelperAttributeKinds { partial_eq: true, ..k },
        DeriveItemKind::CompareOp(CompareOp::Hash) => HelperAttributeKinds { hash: true, ..k },
        _ => k,
    }
}
pub open spec fn mark_all(k: HelperAttributeKinds, es: Seq<DeriveEntry>, n: int) -> HelperAttributeKinds decreases n {
    if n <= 0 { k } else { mark(mark_all(k, es, n - 1), es[n - 1].kind) }
}
}
verus! {
// #[derive(Default)] on HelperAttributeKinds (dropped by extraction): all flags false — assumed
impl Default for HelperAttributeKinds {
    #[verifier::external_body]
    fn default() -> (r: Self) ensures !r.derive_ex, !r.default, !r.debug, !r.ord, !r.partial_ord, !r.eq, !r.partial_eq, !r.hash { unimplemented!() }
}
}
#[verus_verify]
impl CompareOp {
//@ fn item_type.rs CompareOp::is_effects_to
//@   spec r => ensures r == affects(self, target)
//@ end
}
#[verus_verify]
impl HelperAttributeKinds {
//@ fn item_type.rs HelperAttributeKinds::new
//@   spec r => ensures r.derive_ex == derive_ex, !r.default, !r.debug, !r.ord, !r.partial_ord, !r.eq, !r.partial_eq, !r.hash
//@ end
//@ fn item_type.rs HelperAttributeKinds::extend
//@   spec ensures *final(self) == mark_all(*old(self), es@, es@.len() as int)
//@   before for e in es ## #[verus_spec(it => invariant it.seq().len() == es@.len(), forall|i: int| 0 <= i < es@.len() ==> *it.seq()[i] == es@[i], 0 <= it.index@ <= es@.len(), *self == mark_all(*old(self), es@, it.index@))]
//@ end
//@ fn item_type.rs HelperAttributeKinds::is_match_cmp_attr
//@   spec r => ensures r == owned_cmp(self, op)
//@ end
//@ fn item_type.rs HelperAttributeKinds::without_derive_ex
//@   spec r => ensures r == (HelperAttributeKinds { derive_ex: false, ..*self })
//@ end
}
verus! {
#[verifier::external_body]
pub struct Attribute { _p: u8 }
pub uninterp spec fn parsed(attrs: &[Attribute], op: CompareOp) -> HelperAttributeForCompareOp;     // result of parsing #[op(..)], if it succeeds
pub uninterp spec fn default_attr() -> HelperAttributeForCompareOp;
impl Default for HelperAttributeForCompareOp {
    #[verifier::external_body]
    fn default() -> (r: Self) ensures r == default_attr() { unimplemented!() }
}
pub open spec fn seen(attrs: &[Attribute], k: &HelperAttributeKinds, a: CompareOp) -> HelperAttributeForCompareOp {
    if owned_cmp(k, a) { parsed(attrs, a) } else { default_attr() }
}
}
#[verus_verify]
impl HelperAttributeForCompareOp {
    // parse_single / structmeta: out of reach; only "what it returns is a function of (attrs, op)" is assumed
    #[verifier::external_body]
    #[verus_spec(r => ensures r matches Ok(v) ==> v == parsed(attrs, op))]
    fn from_attrs(attrs: &[Attribute], op: CompareOp) -> Result<Self> { unimplemented!() }
}
#[verus_verify]
impl HelperAttributesForCompareOp {
// C15/C01: which helper attributes a trait sees is decided by ownership (doc table) alone, attribute by attribute
//@ fn item_type/compare_op.rs HelperAttributesForCompareOp::from_attrs
//@   spec r => ensures r matches Ok(h) ==> h.ord == seen(attrs, kinds, CompareOp::Ord) && h.partial_ord == seen(attrs, kinds, CompareOp::PartialOrd)
//@     |   && h.eq == seen(attrs, kinds, CompareOp::Eq) && h.partial_eq == seen(attrs, kinds, CompareOp::PartialEq) && h.hash == seen(attrs, kinds, CompareOp::Hash)
//@ end
}
verus! {
// syn::DeriveInput / syn::Data stand-ins: only what build_from_derive_input reads
#[verifier::external_body]
pub struct DataStruct { _p: u8 }
#[verifier::external_body]
pub struct DataEnum { _p: u8 }
#[verifier::external_body]
pub struct DataUnion { _p: u8 }
pub enum Data { Struct(DataStruct), Enum(DataEnum), Union(DataUnion) }
pub struct DeriveInput { pub data: Data }
#[verifier::external_body]
pub struct ItemStruct { _p: u8 }
#[verifier::external_body]
pub struct ItemEnum { _p: u8 }
#[verifier::external_body]
pub fn to_item_struct(item: &DeriveInput, data: &DataStruct) -> ItemStruct { unimplemented!() }
#[verifier::external_body]
pub fn to_item_enum(item: &DeriveInput, data: &DataEnum) -> ItemEnum { unimplemented!() }
// C15: both entry points funnel into the same *_core builders, with nested #[derive_ex(..)] attributes enabled:
// the core builders are given this precondition, so the (verbatim) callers must establish it
#[verifier::external_body]
pub fn build_by_item_struct_core(attr: Option<TokenStream>, item: &ItemStruct, kinds: &mut HelperAttributeKinds) -> (r: Result<TokenStream>)
    requires old(kinds).derive_ex, attr is None ==> true,
{ unimplemented!() }
#[verifier::external_body]
pub fn build_by_item_enum_core(attr: Option<TokenStream>, item: &ItemEnum, kinds: &mut HelperAttributeKinds) -> (r: Result<TokenStream>)
    requires old(kinds).derive_ex,
{ unimplemented!() }
}
//@ fn item_type.rs build_from_derive_input
//@   attr #[verus_verify]
//@   spec r => ensures item.data is Union ==> r is Err
//@ end
fn main() {}

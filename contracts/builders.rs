#![feature(proc_macro_hygiene)]
#![allow(unused)]
use vstd::prelude::*;
//@ include _prelude.rs
//@ include _types.rs
//@ include _vocab.rs
//@ include _boundspec.rs

//@ include _bounds_chain.rs

verus! {
#[verifier::external_body]
pub fn member(this: TokenStream, field: &FieldEntry) -> TokenStream { unimplemented!() }
#[verifier::external_body]
pub fn build_ctor_args<T: ToTok>(fields: &Fields, values: &Vec<T>) -> TokenStream { unimplemented!() }
#[verifier::external_body]
pub fn verif_ident() -> Ident { unimplemented!() }
}
macro_rules! format_ident { ($($arg:tt)*) => { verif_ident() }; }
#[verus_verify]
impl<'a> FieldEntry<'a> {
    #[verifier::external_body]
    fn make_ident(&self, prefix: &str) -> Ident { unimplemented!() }
}
#[verus_verify]
impl<'a> VariantEntry<'a> {
    #[verifier::external_body]
    fn make_pat(&self, prefix: &str) -> TokenStream { unimplemented!() }
}

//@ fn item_type.rs build_copy_for_struct
//@   attr #[verus_verify]
//@   before for field in fields ## #[verus_spec(fi => invariant wcb.gps == gps_of(&item.generics), kind is Copy, use_bounds == entry_phase(start(&item.generics), e).go, fi.seq().len() == fields@.len(), forall|i: int| 0 <= i < fields@.len() ==> *fi.seq()[i] == fields@[i], 0 <= fi.index@ <= fields@.len(), same(&wcb, fields_phase(entry_phase(start(&item.generics), e), use_bounds, &gps_of(&item.generics), fields@, fi.index@, kind)))]
//@   before let wheres = wcb.build( ## proof! { assert(same(&wcb, expected_fields(&item.generics, e, fields@, kind))); }
//@ end
//@ fn item_type.rs build_copy_for_enum
//@   attr #[verus_verify]
//@   before for variant in variants ## #[verus_spec(vi => invariant wcb.gps == gps_of(&item.generics), kind is Copy, use_bounds == entry_phase(start(&item.generics), e).go, vi.seq().len() == variants@.len(), forall|i: int| 0 <= i < variants@.len() ==> *vi.seq()[i] == variants@[i], 0 <= vi.index@ <= variants@.len(), same(&wcb, variants_phase(entry_phase(start(&item.generics), e), use_bounds, &gps_of(&item.generics), variants@, vi.index@, kind)))]
//@   before for field in &variant.fields ## #[verus_spec(fi => invariant wcb.gps == gps_of(&item.generics), kind is Copy, fi.seq().len() == variant.fields@.len(), forall|i: int| 0 <= i < variant.fields@.len() ==> *fi.seq()[i] == variant.fields@[i], 0 <= fi.index@ <= variant.fields@.len(), same(&wcb, fields_phase(level_phase(St { go: use_bounds_outer(&item.generics, e), ..variants_phase(entry_phase(start(&item.generics), e), use_bounds_outer(&item.generics, e), &gps_of(&item.generics), variants@, vi.index@ as int, kind) }, &variant.hattrs, kind), use_bounds, &gps_of(&item.generics), variant.fields@, fi.index@, kind)), use_bounds == level_phase(St { go: use_bounds_outer(&item.generics, e), ..variants_phase(entry_phase(start(&item.generics), e), use_bounds_outer(&item.generics, e), &gps_of(&item.generics), variants@, vi.index@ as int, kind) }, &variant.hattrs, kind).go)]
//@   before let wheres = wcb.build( ## proof! { assert(same(&wcb, expected_variants(&item.generics, e, variants@, kind))); }
//@ end
//@ fn item_type.rs build_clone_for_struct
//@   attr #[verus_verify]
//@   before for field in fields ## #[verus_spec(fi => invariant wcb.gps == gps_of(&item.generics), kind is Clone, use_bounds == entry_phase(start(&item.generics), e).go, fi.seq().len() == fields@.len(), forall|i: int| 0 <= i < fields@.len() ==> *fi.seq()[i] == fields@[i], 0 <= fi.index@ <= fields@.len(), same(&wcb, fields_phase(entry_phase(start(&item.generics), e), use_bounds, &gps_of(&item.generics), fields@, fi.index@, kind)))]
//@   before let wheres = wcb.build( ## proof! { assert(same(&wcb, expected_fields(&item.generics, e, fields@, kind))); }
//@ end
//@ fn item_type.rs build_clone_for_enum
//@   attr #[verus_verify]
//@   before for variant in variants ## #[verus_spec(vi => invariant wcb.gps == gps_of(&item.generics), kind is Clone, use_bounds == entry_phase(start(&item.generics), e).go, vi.seq().len() == variants@.len(), forall|i: int| 0 <= i < variants@.len() ==> *vi.seq()[i] == variants@[i], 0 <= vi.index@ <= variants@.len(), same(&wcb, variants_phase(entry_phase(start(&item.generics), e), use_bounds, &gps_of(&item.generics), variants@, vi.index@, kind)))]
//@   before for field in &variant.fields ## #[verus_spec(fi => invariant wcb.gps == gps_of(&item.generics), kind is Clone, fi.seq().len() == variant.fields@.len(), forall|i: int| 0 <= i < variant.fields@.len() ==> *fi.seq()[i] == variant.fields@[i], 0 <= fi.index@ <= variant.fields@.len(), same(&wcb, fields_phase(level_phase(St { go: use_bounds_outer(&item.generics, e), ..variants_phase(entry_phase(start(&item.generics), e), use_bounds_outer(&item.generics, e), &gps_of(&item.generics), variants@, vi.index@ as int, kind) }, &variant.hattrs, kind), use_bounds, &gps_of(&item.generics), variant.fields@, fi.index@, kind)), use_bounds == level_phase(St { go: use_bounds_outer(&item.generics, e), ..variants_phase(entry_phase(start(&item.generics), e), use_bounds_outer(&item.generics, e), &gps_of(&item.generics), variants@, vi.index@ as int, kind) }, &variant.hattrs, kind).go)]
//@   before let wheres = wcb.build( ## proof! { assert(same(&wcb, expected_variants(&item.generics, e, variants@, kind))); }
//@ end
verus! {
pub open spec fn transparent(f: &FieldEntry) -> bool { f.hattrs.debug.transparent.span.is_some() }
pub open spec fn dbg_ignored(f: &FieldEntry) -> bool { f.hattrs.debug.ignore.span.is_some() }
pub open spec fn n_transparent(fs: Seq<FieldEntry>, n: int) -> int decreases n {
    if n <= 0 { 0 } else { n_transparent(fs, n - 1) + (if transparent(&fs[n - 1]) { 1int } else { 0int }) }
}
pub open spec fn last_tr(fs: Seq<FieldEntry>, n: int) -> int decreases n {
    if n <= 0 { -1 } else if transparent(&fs[n - 1]) { n - 1 } else { last_tr(fs, n - 1) }
}
// C03/C10: debug-ignored fields contribute no bound; with a transparent field only that field does
pub open spec fn dbg_fields_phase(s: St, go: bool, g: &GenericParamSet, fs: Seq<FieldEntry>, n: int) -> St decreases n {
    if n <= 0 { s } else {
        let p = dbg_fields_phase(s, go, g, fs, n - 1);
        if dbg_ignored(&fs[n - 1]) { p } else { field_phase(p, go, g, &fs[n - 1], DeriveItemKind::Debug) }
    }
}
pub open spec fn dbg_expected(s: St, go: bool, g: &GenericParamSet, fs: Seq<FieldEntry>) -> St {
    if n_transparent(fs, fs.len() as int) == 1 { field_phase(s, go, g, &fs[last_tr(fs, fs.len() as int)], DeriveItemKind::Debug) }
    else { dbg_fields_phase(s, go, g, fs, fs.len() as int) }
}
pub proof fn lemma_last_tr(fs: Seq<FieldEntry>, n: int)
    requires 0 <= n <= fs.len(), n_transparent(fs, n) >= 1,
    ensures 0 <= last_tr(fs, n) < n, transparent(&fs[last_tr(fs, n)]),
    decreases n
{
    if n > 0 && !transparent(&fs[n - 1]) { lemma_last_tr(fs, n - 1); }
}
pub proof fn lemma_n_tr_mono(fs: Seq<FieldEntry>, a: int, b: int) requires 0 <= a <= b, ensures n_transparent(fs, a) <= n_transparent(fs, b) decreases b { if a < b { lemma_n_tr_mono(fs, a, b - 1); } }
pub open spec fn tr_mono(fs: Seq<FieldEntry>) -> bool { forall|a: int, b: int| 0 <= a <= b ==> #[trigger] n_transparent(fs, a) <= #[trigger] n_transparent(fs, b) }
pub proof fn lemma_mono_all(fs: Seq<FieldEntry>) ensures tr_mono(fs) {
    assert forall|a: int, b: int| 0 <= a <= b implies #[trigger] n_transparent(fs, a) <= #[trigger] n_transparent(fs, b) by { lemma_n_tr_mono(fs, a, b); }
}
}
#[verus_verify]
impl HelperAttributes {
//@ fn item_type.rs HelperAttributes::is_debug_ignore
//@   spec r => ensures r == self.debug.ignore.span.is_some()
//@ end
}
#[verus_verify]
impl<'a> FieldEntry<'a> {
    #[verifier::external_body]
    #[verus_spec(r => ensures uses(&r) == Set::<int>::empty())]
    fn member(&self) -> TokenStream { unimplemented!() }
}
//@ fn item_type.rs build_debug_ref_def
//@   attr #[verus_verify]
//@ end
//@ fn item_type.rs build_debug_expr
//@   attr #[verus_verify]
//@   spec r => requires forall|f: &FieldEntry| to_expr.requires((f,)),
//@     | ensures r is Err <==> n_transparent(fields@, fields@.len() as int) >= 2,
//@     | r is Ok ==> same(final(wcb), dbg_expected(st(old(wcb), true), use_bounds, &old(wcb).gps, fields@)) && final(wcb).gps == old(wcb).gps
//@   before for field in fields ## proof! { let _hint: Option<&FieldEntry> = transparent_field; lemma_mono_all(fields@); }
//@   before for field in fields ## #[verus_spec(it => invariant it.seq().len() == fields@.len(), forall|i: int| 0 <= i < fields@.len() ==> *it.seq()[i] == fields@[i], 0 <= it.index@ <= fields@.len(), tr_mono(fields@), 0 <= n_transparent(fields@, it.index@) <= 1, it.index@ < fields@.len() ==> n_transparent(fields@, it.index@ + 1) == n_transparent(fields@, it.index@ as int) + (if transparent(&fields@[it.index@ as int]) { 1int } else { 0int }), transparent_field is None <==> n_transparent(fields@, it.index@) == 0, transparent_field matches Some(f) ==> 0 <= last_tr(fields@, it.index@) < it.index@ && *f == fields@[last_tr(fields@, it.index@)])]
//@   before for field in fields@2 ## #[verus_spec(it => invariant it.seq().len() == fields@.len(), forall|i: int| 0 <= i < fields@.len() ==> *it.seq()[i] == fields@[i], 0 <= it.index@ <= fields@.len(), kind is Debug, wcb.gps == old(wcb).gps, forall|f: &FieldEntry| to_expr.requires((f,)), same(wcb, dbg_fields_phase(st(old(wcb), true), use_bounds, &old(wcb).gps, fields@, it.index@)))]
//@ end
verus! {
pub open spec fn dbg_struct_expected(g: &Generics, h: &HelperAttributes, e: &DeriveEntry, fs: Seq<FieldEntry>) -> St {
    let s1 = entry_phase(level_phase(start(g), h, DeriveItemKind::Debug), e);
    dbg_expected(St { go: true, ..s1 }, s1.go, &gps_of(g), fs)
}
pub open spec fn dbg_variants_phase(s: St, go: bool, g: &GenericParamSet, vs: Seq<VariantEntry>, n: int) -> St decreases n {
    if n <= 0 { s } else {
        let p = dbg_variants_phase(s, go, g, vs, n - 1);
        let s1 = level_phase(St { go, ..p }, &vs[n - 1].hattrs, DeriveItemKind::Debug);
        dbg_expected(St { go: true, ..s1 }, s1.go, g, vs[n - 1].fields@)
    }
}
pub open spec fn no_double_transparent(vs: Seq<VariantEntry>, n: int) -> bool {
    forall|i: int| 0 <= i < n ==> n_transparent(#[trigger] vs[i].fields@, vs[i].fields@.len() as int) < 2
}
}
//@ fn item_type.rs build_debug_for_struct
//@   attr #[verus_verify]
//@   spec r => ensures r is Err <==> n_transparent(fields@, fields@.len() as int) >= 2
//@   before |field: &FieldEntry| ## #[verus_spec(r: TokenStream => requires true)]
//@   before let wheres = wcb.build( ## proof! { assert(same(&wcb, dbg_struct_expected(&item.generics, hattrs, e, fields@))); }
//@ end
//@ fn item_type.rs build_debug_for_enum
//@   attr #[verus_verify]
//@   spec r => ensures r is Err <==> !no_double_transparent(variants@, variants@.len() as int)
//@   before |field: &FieldEntry| ## #[verus_spec(r: TokenStream => requires true)]
//@   before for variant in variants ## #[verus_spec(vi => invariant wcb.gps == gps_of(&item.generics), kind is Debug, use_bounds == entry_phase(level_phase(start(&item.generics), hattrs, kind), e).go, vi.seq().len() == variants@.len(), forall|i: int| 0 <= i < variants@.len() ==> *vi.seq()[i] == variants@[i], 0 <= vi.index@ <= variants@.len(), no_double_transparent(variants@, vi.index@), same(&wcb, dbg_variants_phase(entry_phase(level_phase(start(&item.generics), hattrs, kind), e), use_bounds, &gps_of(&item.generics), variants@, vi.index@)))]
//@   before let wheres = wcb.build( ## proof! { assert(same(&wcb, dbg_variants_phase(entry_phase(level_phase(start(&item.generics), hattrs, DeriveItemKind::Debug), e), entry_phase(level_phase(start(&item.generics), hattrs, DeriveItemKind::Debug), e).go, &gps_of(&item.generics), variants@, variants@.len() as int))); }
//@   before let expr = build_debug_expr( ## proof! { assert(variant.fields@ == variants@[vi.index@ as int].fields@); }
//@ end
verus! {
pub open spec fn has_value(h: &HelperAttributes) -> bool { h.default matches Some(a) && a.value is Some }
// C03: a field with an explicit default value contributes no default field bound (its explicit bound(...) levels still apply)
pub open spec fn def_fields_phase(s: St, go: bool, g: &GenericParamSet, fs: Seq<FieldEntry>, n: int) -> St decreases n {
    if n <= 0 { s } else {
        let p = def_fields_phase(s, go, g, fs, n - 1);
        let s1 = level_phase(St { go, ..p }, &fs[n - 1].hattrs, DeriveItemKind::Default);
        if has_value(&fs[n - 1].hattrs) { s1 } else { field_default(s1, g, &fs[n - 1].field.ty) }
    }
}
}
#[verus_verify]
impl HelperAttributeForDefault {
    // nested fn need_into matches on syn::Expr (external enum): only Some/None-ness is used here
    #[verifier::external_body]
    #[verus_spec(r => ensures r is Some <==> self.value is Some)]
    fn value(&self, ty: &Type) -> Option<TokenStream> { unimplemented!() }
}
#[verus_verify]
impl HelperAttributes {
//@ fn item_type.rs HelperAttributes::default_value
//@   spec r => ensures r is Some <==> has_value(self)
//@ end
}
//@ fn item_type.rs build_default_ctor_args
//@   attr #[verus_verify]
//@   spec r => ensures r is Ok, same(final(wcb), def_fields_phase(st(old(wcb), true), use_bounds, &old(wcb).gps, fields@, fields@.len() as int)), final(wcb).gps == old(wcb).gps
//@   before for field in fields ## #[verus_spec(it => invariant it.seq().len() == fields@.len(), forall|i: int| 0 <= i < fields@.len() ==> *it.seq()[i] == fields@[i], 0 <= it.index@ <= fields@.len(), kind is Default, wcb.gps == old(wcb).gps, same(wcb, def_fields_phase(st(old(wcb), true), use_bounds, &old(wcb).gps, fields@, it.index@)))]
//@ end
verus! {
// C03/C11: with a type-level `#[default(expr)]` the body uses no field, so no field contributes; otherwise every field resolves its own
// levels and, lacking an explicit value, adds its default bound
pub open spec fn def_struct_expected(g: &Generics, h: &HelperAttributes, e: &DeriveEntry, fs: Seq<FieldEntry>) -> St {
    let s1 = entry_phase(level_phase(start(g), h, DeriveItemKind::Default), e);
    if has_value(h) { s1 } else { def_fields_phase(St { go: true, ..s1 }, s1.go, &gps_of(g), fs, fs.len() as int) }
}
}
//@ fn item_type.rs build_default_for_struct
//@   attr #[verus_verify]
//@   rewrite R12
//@   spec r => ensures r is Ok
//@   before let wheres = wcb.build( ## proof! { assert(same(&wcb, def_struct_expected(&item.generics, hattrs, e, fields@))); }
//@ end
verus! {
#[verifier::external_body]
pub fn with_ref<T: ToTok>(source: &T, is_ref: bool) -> TokenStream { unimplemented!() }
#[verifier::external_body]
pub fn with_ref_ty(ty: &Type, is_ref: bool) -> TokenStream { unimplemented!() }
#[verifier::external_body]
pub fn ref_operand(ty: &Type) -> TokenStream { unimplemented!() }
// syn_utils::expand_self: replaces the type `Self` by `to` (syn visitor, out of reach)
#[verifier::external_body]
pub fn expand_self<T>(input: &T, to: &Type) -> T { unimplemented!() }
}
#[verus_verify]
impl UnaryOp {
    #[verifier::external_body]
    fn to_func_name(self) -> &'static str { unimplemented!() }
}
#[verus_verify]
impl BinaryOp {
    #[verifier::external_body]
    pub fn to_func_name(self) -> &'static str { unimplemented!() }
}
// operators: every impl (all owned / reference forms) resolves its bounds the same way: per-trait, shared, then each field
//@ fn item_type.rs build_unary_op
//@   attr #[verus_verify]
//@   rewrite R11
//@   before for field in fields ## #[verus_spec(fi => invariant wcb.gps == gps_of(&generics), kind == DeriveItemKind::UnaryOp(op), use_bounds == entry_phase(start(&generics), e).go, fi.seq().len() == fields@.len(), forall|i: int| 0 <= i < fields@.len() ==> *fi.seq()[i] == fields@[i], 0 <= fi.index@ <= fields@.len(), same(&wcb, fields_phase(entry_phase(start(&generics), e), use_bounds, &gps_of(&generics), fields@, fi.index@, kind)))]
//@   before wcb.expand_self(&this_ty); ## proof! { assert(same(&wcb, expected_fields(&generics, e, fields@, kind))); }
//@ end
//@ fn item_type.rs build_assign_op
//@   attr #[verus_verify]
//@   rewrite R11
//@   before for field in fields ## #[verus_spec(fi => invariant wcb.gps == gps_of(&generics), kind == DeriveItemKind::AssignOp(op), use_bounds == entry_phase(start(&generics), e).go, fi.seq().len() == fields@.len(), forall|i: int| 0 <= i < fields@.len() ==> *fi.seq()[i] == fields@[i], 0 <= fi.index@ <= fields@.len(), same(&wcb, fields_phase(entry_phase(start(&generics), e), use_bounds, &gps_of(&generics), fields@, fi.index@, kind)))]
//@   before wcb.expand_self(&this_ty); ## proof! { assert(same(&wcb, expected_fields(&generics, e, fields@, kind))); }
//@ end
//@ fn item_type.rs build_binary_op
//@   attr #[verus_verify]
//@   rewrite R11
//@   before for field in fields ## #[verus_spec(fi => invariant wcb.gps == gps_of(&generics), kind == DeriveItemKind::BinaryOp(op), use_bounds == entry_phase(start(&generics), e).go, fi.seq().len() == fields@.len(), forall|i: int| 0 <= i < fields@.len() ==> *fi.seq()[i] == fields@[i], 0 <= fi.index@ <= fields@.len(), same(&wcb, fields_phase(entry_phase(start(&generics), e), use_bounds, &gps_of(&generics), fields@, fi.index@, kind)))]
//@   before wcb.expand_self(&this_ty); ## proof! { assert(same(&wcb, expected_fields(&generics, e, fields@, kind))); }
//@ end
verus! {
pub open spec fn use_bounds_outer(g: &Generics, e: &DeriveEntry) -> bool { entry_phase(start(g), e).go }
}
fn main() {}

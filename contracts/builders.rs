#![feature(proc_macro_hygiene)]
#![allow(unused)]
use vstd::prelude::*;
//@ include _prelude.rs
//@ include _types.rs
//@ include _vocab.rs
//@ include _boundspec.rs

//@ include _bounds_chain.rs

verus! {
#[verifier::external_body]
pub fn member(this: TokenStream, field: &FieldEntry) -> TokenStream { unimplemented!() }
#[verifier::external_body]
pub fn build_ctor_args<T: ToTok>(fields: &Fields, values: &Vec<T>) -> TokenStream { unimplemented!() }
#[verifier::external_body]
pub fn verif_ident() -> Ident { unimplemented!() }
}
macro_rules! format_ident { ($($arg:tt)*) => { verif_ident() }; }
#[verus_verify]
impl<'a> FieldEntry<'a> {
    #[verifier::external_body]
    fn make_ident(&self, prefix: &str) -> Ident { unimplemented!() }
}

//@ fn item_type.rs build_copy_for_struct
//@   attr #[verus_verify]
//@   before for field in fields ## #[verus_spec(fi => invariant wcb.gps == gps_of(&item.generics), kind is Copy, use_bounds == entry_phase(start(&item.generics), e).go, fi.seq().len() == fields@.len(), forall|i: int| 0 <= i < fields@.len() ==> *fi.seq()[i] == fields@[i], 0 <= fi.index@ <= fields@.len(), same(&wcb, fields_phase(entry_phase(start(&item.generics), e), use_bounds, &gps_of(&item.generics), fields@, fi.index@, kind)))]
//@   before let wheres = wcb.build( ## proof! { assert(same(&wcb, expected_fields(&item.generics, e, fields@, kind))); }
//@ end
//@ fn item_type.rs build_copy_for_enum
//@   attr #[verus_verify]
//@   before for variant in variants ## #[verus_spec(vi => invariant wcb.gps == gps_of(&item.generics), kind is Copy, use_bounds == entry_phase(start(&item.generics), e).go, vi.seq().len() == variants@.len(), forall|i: int| 0 <= i < variants@.len() ==> *vi.seq()[i] == variants@[i], 0 <= vi.index@ <= variants@.len(), same(&wcb, variants_phase(entry_phase(start(&item.generics), e), use_bounds, &gps_of(&item.generics), variants@, vi.index@, kind)))]
//@   before for field in &variant.fields ## #[verus_spec(fi => invariant wcb.gps == gps_of(&item.generics), kind is Copy, fi.seq().len() == variant.fields@.len(), forall|i: int| 0 <= i < variant.fields@.len() ==> *fi.seq()[i] == variant.fields@[i], 0 <= fi.index@ <= variant.fields@.len(), same(&wcb, fields_phase(level_phase(St { go: use_bounds_outer(&item.generics, e), ..variants_phase(entry_phase(start(&item.generics), e), use_bounds_outer(&item.generics, e), &gps_of(&item.generics), variants@, vi.index@ as int, kind) }, &variant.hattrs, kind), use_bounds, &gps_of(&item.generics), variant.fields@, fi.index@, kind)), use_bounds == level_phase(St { go: use_bounds_outer(&item.generics, e), ..variants_phase(entry_phase(start(&item.generics), e), use_bounds_outer(&item.generics, e), &gps_of(&item.generics), variants@, vi.index@ as int, kind) }, &variant.hattrs, kind).go)]
//@   before let wheres = wcb.build( ## proof! { assert(same(&wcb, expected_variants(&item.generics, e, variants@, kind))); }
//@ end
verus! {
pub open spec fn use_bounds_outer(g: &Generics, e: &DeriveEntry) -> bool { entry_phase(start(g), e).go }
}
fn main() {}

#![feature(proc_macro_hygiene)]
#![feature(allocator_api)]
#![allow(unused)]
use vstd::prelude::*;
// ---- unit `implitem`: the pure helpers of item_impl.rs (operator impl items: C09, C15, C16, C19) ----
// Stand-ins for syn 2 types, with exactly the shape the copied functions look at (variant / field names as in syn 2's
// ty.rs, path.rs, punctuated.rs); everything else of a type is folded into an opaque `Other`. ASSUMPTIONS, listed in the evidence:
// `Punctuated<T, P>` is modelled as `Vec<T>` (len(), indexing that panics out of range); `Type: Clone` returns an equal value.
verus! {
#[verifier::external_body] pub struct Span { _p: u8 }
#[verifier::external_body] pub struct Error { _p: u8 }
pub type Result<T> = core::result::Result<T, Error>;
#[verifier::external_body] pub fn verif_error(span: Span) -> Error { unimplemented!() }
#[verifier::external_body] pub fn verif_call_site() -> Span { unimplemented!() }
#[verifier::external_body] pub struct TokenStream { _p: u8 }
#[verifier::external_body] pub struct Ident { _p: u8 }
impl Ident { #[verifier::external_body] pub fn span(&self) -> Span { unimplemented!() } }
#[verifier::external_body] pub struct Lifetime { _p: u8 }
#[verifier::external_body] pub struct MutTok { _p: u8 }
#[verifier::external_body] pub struct Opaque { _p: u8 }
pub struct TypeParen { pub elem: Box<Type> }
pub struct TypeGroup { pub elem: Box<Type> }
pub struct TypeReference { pub lifetime: Option<Lifetime>, pub mutability: Option<MutTok>, pub elem: Box<Type> }
pub enum Type { Paren(TypeParen), Group(TypeGroup), Reference(TypeReference), Other(Opaque) }
impl Clone for Type { #[verifier::external_body] fn clone(&self) -> (r: Type) ensures r == *self { unimplemented!() } }
pub assume_specification<T: ?Sized, A: core::alloc::Allocator> [<Box<T, A> as core::convert::AsRef<T>>::as_ref] (b: &Box<T, A>) -> (r: &T) ensures r == &**b;
pub type Punctuated<T> = Vec<T>;
pub struct AngleBracketedGenericArguments { pub args: Punctuated<GenericArgument> }
pub enum PathArguments { None, AngleBracketed(AngleBracketedGenericArguments), Parenthesized(Opaque) }
pub enum GenericArgument { Lifetime(Lifetime), Type(Type), Const(Opaque), AssocType(Opaque), AssocConst(Opaque), Constraint(Opaque) }
pub struct PathSegment { pub ident: Ident, pub arguments: PathArguments }
impl PathArguments { pub fn is_none(&self) -> (r: bool) ensures r == (*self is None) { match self { PathArguments::None => true, _ => false } } }
pub struct Path { pub leading_colon: Option<Opaque>, pub segments: Punctuated<PathSegment> }
pub struct Attribute { pub p: Path }
impl Attribute { pub fn path(&self) -> (r: &Path) ensures *r == self.p { &self.p } }
// R15 target: `V.iter().all(|x| BODY)` is rewritten to `iter_all_r15(&V, |x| BODY)`; verified here, not assumed
pub fn iter_all_r15<T, F: Fn(&T) -> bool>(v: &Vec<T>, f: F) -> (r: bool)
    requires forall|i: int| 0 <= i < v@.len() ==> f.requires((&v@[i],)),
    ensures r ==> forall|i: int| 0 <= i < v@.len() ==> f.ensures((&v@[i],), true),
            !r ==> exists|i: int| 0 <= i < v@.len() && f.ensures((&v@[i],), false),
{
    let mut k: usize = 0;
    while k < v.len()
        invariant 0 <= k <= v@.len(), forall|i: int| 0 <= i < v@.len() ==> f.requires((&v@[i],)), forall|i: int| 0 <= i < k ==> f.ensures((&v@[i],), true),
        decreases v@.len() - k,
    {
        if !f(&v[k]) { return false; }
        k += 1;
    }
    true
}
// proc_macro2: `impl<T: ?Sized + AsRef<str>> PartialEq<T> for Ident` (comparison with the text of the identifier), here at T = &str
pub uninterp spec fn ident_is(i: Ident, s: &str) -> bool;
impl PartialEq<&str> for Ident { #[verifier::external_body] fn eq(&self, other: &&str) -> (r: bool) ensures r == ident_is(*self, *other) { unimplemented!() } }
pub struct ImplItemType { pub ident: Ident, pub ty: Type }
pub enum ImplItem { Const(Opaque), Fn(Opaque), Type(ImplItemType), Macro(Opaque), Verbatim(Opaque) }
pub struct ItemImpl { pub items: Vec<ImplItem> }
/// an associated type item named `Output`
pub open spec fn is_output(it: ImplItem) -> bool { it matches ImplItem::Type(t) && ident_is(t.ident, "Output") }

// syn_utils::expand_self / item_impl::ref_type go through visitors and parse_quote!: uninterpreted
pub uninterp spec fn expand_self_spec(ty: Type, self_ty: Type) -> Type;
#[verifier::external_body] pub fn expand_self(ty: &Type, self_ty: &Type) -> (r: Type) ensures r == expand_self_spec(*ty, *self_ty) { unimplemented!() }
pub uninterp spec fn ref_of(ty: Type) -> Type;
#[verifier::external_body] pub fn ref_type(ty: &Type) -> (r: Type) ensures r == ref_of(*ty) { unimplemented!() }

// ---- vocabulary (from the statements of C09 / C16 and the documentation of `#[derive_ex]` on impl items) ----
/// the type with its parentheses / invisible groups removed
pub open spec fn strip(t: Type) -> Type decreases t {
    match t { Type::Paren(p) => strip(*p.elem), Type::Group(g) => strip(*g.elem), _ => t }
}
/// (operand type, written as a plain shared reference?) - `&T` only, not `&'a T` / `&mut T`
pub open spec fn ref_elem(t: Type) -> (Type, bool) {
    match strip(t) {
        Type::Reference(tr) => if tr.lifetime.is_none() && tr.mutability.is_none() { (*tr.elem, true) } else { (strip(t), false) },
        o => (o, false),
    }
}
pub open spec fn seg_ok(s: PathSegment) -> bool { ident_is(s.ident, "derive_ex") && s.arguments is None }
/// the documented spellings of a sibling request - `derive_ex`, `derive_ex::derive_ex`, `::derive_ex::derive_ex` - and nothing else (C15, C06, C14)
pub open spec fn root_path(p: Path) -> bool {
    (p.segments@.len() == 1 && seg_ok(p.segments@[0]) && p.leading_colon is None)
    || (p.segments@.len() == 2 && seg_ok(p.segments@[0]) && seg_ok(p.segments@[1]))
}
/// `Rhs` of `impl Op<Rhs> for T`: the single type argument with `Self` written out, `T` itself if the path has no (or no such) argument
pub open spec fn rhs_of(s: PathSegment, self_ty: Type) -> Type {
    match s.arguments {
        PathArguments::AngleBracketed(a) => if a.args@.len() == 1 { match a.args@[0] { GenericArgument::Type(t) => expand_self_spec(t, self_ty), _ => self_ty } } else { self_ty },
        _ => self_ty,
    }
}

// ---- argument lists (C15: split == merged; C19: dump asked for in any list) ----
pub uninterp spec fn parsed(t: TokenStream) -> Result<ArgList>;
#[verifier::external_body] pub fn parse2(t: TokenStream) -> (r: Result<ArgList>) ensures r == parsed(t) { unimplemented!() }
pub uninterp spec fn op_of(i: Ident) -> Result<Op>;
pub open spec fn lst(attrs: Seq<TokenStream>, i: int) -> ArgList { parsed(attrs[i])->Ok_0 }
pub open spec fn all_parse(attrs: Seq<TokenStream>, n: int) -> bool { forall|i: int| 0 <= i < n ==> parsed(attrs[i]) is Ok }
pub open spec fn any_dump(attrs: Seq<TokenStream>, n: int) -> bool decreases n { if n <= 0 { false } else { any_dump(attrs, n - 1) || lst(attrs, n - 1).dump } }
pub open spec fn item_ok(i: Ident, op: Op) -> bool { op_of(i) is Ok && (op_of(i)->Ok_0).op == op.op }
pub open spec fn list_ok(l: ArgList, m: int, op: Op) -> bool { forall|j: int| 0 <= j < m ==> item_ok(#[trigger] l.items@[j], op) }
pub open spec fn lists_ok(attrs: Seq<TokenStream>, n: int, op: Op) -> bool { forall|i: int| 0 <= i < n ==> list_ok(#[trigger] lst(attrs, i), lst(attrs, i).items@.len() as int, op) }
/// one of the first m entries of the list names form f
pub open spec fn list_has(l: ArgList, m: int, f: OpForm) -> bool decreases m { if m <= 0 { false } else { list_has(l, m - 1, f) || (op_of(l.items@[m - 1])->Ok_0).form == f } }
/// one of the first n lists (if need_dump: one that says `dump`) names form f - `dump` is shared by the list it is written in (C19)
pub open spec fn lists_have(attrs: Seq<TokenStream>, n: int, f: OpForm, need_dump: bool) -> bool decreases n {
    if n <= 0 { false } else { lists_have(attrs, n - 1, f, need_dump) || ((need_dump ==> lst(attrs, n - 1).dump) && list_has(lst(attrs, n - 1), lst(attrs, n - 1).items@.len() as int, f)) }
}
}
macro_rules! bail {
    (_, $($arg:tt)*) => { return core::result::Result::Err(verif_error(verif_call_site())) };
    ($span:expr, $($arg:tt)*) => { return core::result::Result::Err(verif_error($span)) };
}
//@ enum common.rs BinaryOp structural
//@ enum item_impl.rs OpForm structural
//@ struct item_impl.rs Op
//@ struct item_impl.rs Args
//@ struct item_impl.rs ArgList
#[verus_verify]
impl Op {
//@ fn item_impl.rs Op::new
//@   spec r => ensures r.op == op, r.form == form
//@ end
    #[verifier::external_body]
    #[verus_spec(r => ensures r == op_of(*s))]
    fn from_ident(s: &Ident) -> Result<Self> { unimplemented!() }
}
#[verus_verify]
impl Args {
// C15 (impl items): a form is requested iff some list names it, whichever sibling attribute it was written in; an entry naming another
// operator (or a list that does not parse) refuses the request; C19: `dump` is shared by the list it is written in
//@ fn item_impl.rs Args::from_attr_args
//@   rewrite R14
//@   spec r => ensures
//@     | r is Ok <==> all_parse(attrs@, attrs@.len() as int) && lists_ok(attrs@, attrs@.len() as int, op),
//@     | r is Ok ==> r->Ok_0.dump_any == any_dump(attrs@, attrs@.len() as int)
//@     |     && r->Ok_0.make_binary == lists_have(attrs@, attrs@.len() as int, OpForm::Binary, false)
//@     |     && r->Ok_0.make_assign == lists_have(attrs@, attrs@.len() as int, OpForm::Assign, false)
//@     |     && r->Ok_0.dump_binary == lists_have(attrs@, attrs@.len() as int, OpForm::Binary, true)
//@     |     && r->Ok_0.dump_assign == lists_have(attrs@, attrs@.len() as int, OpForm::Assign, true)
//@   before for attr in attrs ## #[verus_spec(it => invariant it.seq() == attrs@, 0 <= it.index@ <= attrs@.len(), all_parse(attrs@, it.index@), lists_ok(attrs@, it.index@, op), dump_any == any_dump(attrs@, it.index@), make_binary == lists_have(attrs@, it.index@, OpForm::Binary, false), make_assign == lists_have(attrs@, it.index@, OpForm::Assign, false), dump_binary == lists_have(attrs@, it.index@, OpForm::Binary, true), dump_assign == lists_have(attrs@, it.index@, OpForm::Assign, true))]
//@   before for item in &args.items ## #[verus_spec(jt => invariant jt.seq().len() == args.items@.len(), forall|j: int| 0 <= j < args.items@.len() ==> *jt.seq()[j] == args.items@[j], 0 <= jt.index@ <= args.items@.len(), 0 <= it.index@ < attrs@.len(), parsed(attrs@[it.index@]) == Ok::<ArgList, Error>(args), all_parse(attrs@, it.index@), lists_ok(attrs@, it.index@, op), list_ok(args, jt.index@, op), dump_any == any_dump(attrs@, it.index@ + 1), make_binary == (lists_have(attrs@, it.index@, OpForm::Binary, false) || list_has(args, jt.index@, OpForm::Binary)), make_assign == (lists_have(attrs@, it.index@, OpForm::Assign, false) || list_has(args, jt.index@, OpForm::Assign)), dump_binary == (lists_have(attrs@, it.index@, OpForm::Binary, true) || (args.dump && list_has(args, jt.index@, OpForm::Binary))), dump_assign == (lists_have(attrs@, it.index@, OpForm::Assign, true) || (args.dump && list_has(args, jt.index@, OpForm::Assign))))]
//@   before let target_op = Op::from_ident(item)?; ## proof! { assert(args.items@[jt.index@ as int] == *item); assert(lst(attrs@, it.index@ as int) == args); }
//@ end
}
// C09 / C16: operand classification looks through parentheses and groups, treats only a plain `&T` as the reference form, terminates and never panics
//@ fn item_impl.rs to_ref_elem
//@   attr #[verus_verify]
//@   spec r => ensures r == ref_elem(*ty)
//@   before let mut ty = ty; ## let ty0 = ty;
//@   before loop { ## #[verus_spec(invariant strip(*ty) == strip(*ty0) ensures !(*ty is Paren), !(*ty is Group) decreases *ty)]
//@ end
// C09 / C16: Rhs defaults to the self type for every trait path that does not carry exactly one type argument (no indexing panic on `Add<>`)
//@ fn item_impl.rs to_rhs
//@   attr #[verus_verify]
//@   spec r => ensures r == rhs_of(*s, *self_ty)
//@ end
// C15 / C14 / C02 / C05 / C06: which attributes on the item are part of the request (merged into it and removed from the re-emitted item)
//@ fn item_type.rs is_root_derive_ex_attr
//@   attr #[verus_verify]
//@   rewrite R15
//@   spec r => ensures r == root_path(attr.p)
//@   before |s| s.ident ## #[verus_spec(r: bool => ensures r == seg_ok(*s))]
//@ end
// C09: the Output of the derived forms is the type written in the first `type Output = ..;` of the user impl; Err iff there is none
//@ fn item_impl.rs find_output_type
//@   attr #[verus_verify]
//@   spec r => ensures
//@     | r is Err <==> forall|i: int| 0 <= i < item_impl.items@.len() ==> !is_output(item_impl.items@[i]),
//@     | r is Ok ==> exists|i: int| 0 <= i < item_impl.items@.len() && is_output(item_impl.items@[i]) && *(r->Ok_0) == (item_impl.items@[i]->Type_0).ty && forall|j: int| 0 <= j < i ==> !is_output(item_impl.items@[j])
//@   before for item in &item_impl.items ## #[verus_spec(it => invariant it.seq().len() == item_impl.items@.len(), forall|i: int| 0 <= i < item_impl.items@.len() ==> *it.seq()[i] == item_impl.items@[i], 0 <= it.index@ <= item_impl.items@.len(), forall|j: int| 0 <= j < it.index@ ==> !is_output(item_impl.items@[j]))]
//@ end
//@ fn item_impl.rs ref_type_with
//@   attr #[verus_verify]
//@   spec r => ensures r == (if is_ref { ref_of(*ty) } else { *ty })
//@ end
fn main() {}

#![feature(proc_macro_hygiene)]
#![allow(unused)]
use vstd::prelude::*;
//@ include _prelude.rs
//@ include _types.rs
//@ include _vocab.rs
//@ include _boundspec.rs

//@ include _bounds_chain.rs
fn main() {}

verus! {
#[verifier::external_body]
#[derive(Clone, Copy)]
pub struct DotDot { _p: u8 }
#[verifier::external_body]
pub struct ImplGenerics { _p: u8 }
#[verifier::external_body]
pub struct TypeGenerics { _p: u8 }
#[verifier::external_body]
pub struct WhereClause { _p: u8 }
// structmeta 0.3.0: pub struct NameArgs<T> { pub name_span: Span, pub args: T }
pub struct NameArgs<T> { pub name_span: Span, pub args: T }
pub struct ItemStruct { pub ident: Ident, pub generics: Generics, pub fields: Fields }
pub struct ItemEnum { pub ident: Ident, pub generics: Generics }
// item_type.rs allow_deprecated_for_{struct,enum}: an attribute for the emitted impl, no user expression inside
#[verifier::external_body]
pub fn allow_deprecated_for_struct(item: &ItemStruct) -> (r: TokenStream) ensures uses(&r) == Set::<int>::empty() { unimplemented!() }
#[verifier::external_body]
pub fn allow_deprecated_for_enum(item: &ItemEnum) -> (r: TokenStream) ensures uses(&r) == Set::<int>::empty() { unimplemented!() }
impl ToTok for ImplGenerics { open spec fn tok_uses(&self) -> Set<int> { Set::empty() } }
impl ToTok for TypeGenerics { open spec fn tok_uses(&self) -> Set<int> { Set::empty() } }
// syn: `TypeGenerics::as_turbofish()` (`::<T, U>`): the item's own parameters, no user expression inside
#[verifier::external_body]
pub struct Turbofish { _p: u8 }
impl ToTok for Turbofish { open spec fn tok_uses(&self) -> Set<int> { Set::empty() } }
impl TypeGenerics {
    #[verifier::external_body]
    pub fn as_turbofish(&self) -> Turbofish { unimplemented!() }
}
pub uninterp spec fn seq_uses<T>(v: Seq<T>) -> Set<int>;
impl<T: ToTok> ToTok for Vec<T> { open spec fn tok_uses(&self) -> Set<int> { seq_uses(self@) } }
impl Generics {
    #[verifier::external_body]
    pub fn split_for_impl(&self) -> (ImplGenerics, TypeGenerics, Option<WhereClause>) { unimplemented!() }
}
#[verifier::external_body]
pub fn verif_parse_quote<T>() -> T { unimplemented!() }
#[verifier::external_body]
pub fn vec_extend_cloned<T: Clone>(x: &mut Vec<T>, y: &Vec<T>) ensures final(x)@ == old(x)@ + y@ { unimplemented!() }
impl GenericParamSet {
    // syn visitor (syn_utils.rs), out of the verifier's reach; checked by the bounded layer of C03
    #[verifier::external_body]
    pub fn contains_in_type(&self, ty: &Type) -> (r: bool) ensures r == mentions(self, ty) { unimplemented!() }
}
// Bound::parse / derive(Clone) on Bound: structural clone assumed

// Bounds::from reference: absent => continue with nothing; present => entries in order, continue only if `..` occurs
pub open spec fn fold_ty(args: Seq<Bound>, n: int) -> Seq<Type> decreases n {
    if n <= 0 { Seq::empty() } else { match args[n - 1] { Bound::Type(t) => fold_ty(args, n - 1).push(t), _ => fold_ty(args, n - 1) } }
}
pub open spec fn fold_pred(args: Seq<Bound>, n: int) -> Seq<WherePredicate> decreases n {
    if n <= 0 { Seq::empty() } else { match args[n - 1] { Bound::Pred(p) => fold_pred(args, n - 1).push(p), _ => fold_pred(args, n - 1) } }
}
pub open spec fn fold_dots(args: Seq<Bound>, n: int) -> bool decreases n {
    if n <= 0 { false } else { (args[n - 1] is Default) || fold_dots(args, n - 1) }
}
pub open spec fn expected_fields(g: &Generics, e: &DeriveEntry, fs: Seq<FieldEntry>, kind: DeriveItemKind) -> St {
    let s1 = entry_phase(start(g), e);
    fields_phase(s1, s1.go, &gps_of(g), fs, fs.len() as int, kind)
}
pub open spec fn expected_variants(g: &Generics, e: &DeriveEntry, vs: Seq<VariantEntry>, kind: DeriveItemKind) -> St {
    let s1 = entry_phase(start(g), e);
    variants_phase(s1, s1.go, &gps_of(g), vs, vs.len() as int, kind)
}
}
macro_rules! Token { ($($t:tt)*) => { DotDot }; }
macro_rules! parse_quote { ($($arg:tt)*) => { verif_parse_quote() }; }

//@ enum bound.rs Bound noderive
verus! {
// #[derive(Clone)] on Bound: structural clone assumed (its fields are syn types)
impl Clone for Bound { #[verifier::external_body] fn clone(&self) -> (r: Bound) ensures r == *self { unimplemented!() } }
}
//@ constseq item_type.rs CompareOp::VARIANTS

#[verus_verify]
impl DeriveItemKind {
    #[verifier::external_body]
    fn to_path(self) -> Path { unimplemented!() }
}
#[verus_verify]
impl CompareOp {
//@ fn item_type.rs CompareOp::is_effects_to
//@   spec r => ensures r == affects(self, target)
//@ end
}

#[verus_verify]
impl Bounds {
//@ fn bound.rs Bounds::new
//@   spec r => ensures r.ty@ == Seq::<Type>::empty(), r.pred@ == Seq::<WherePredicate>::empty(), r.default
//@ end
//@ fn bound.rs Bounds::push
//@   spec ensures
//@     | final(self).ty@ == (if let Bound::Type(t) = bound { old(self).ty@.push(t) } else { old(self).ty@ }),
//@     | final(self).pred@ == (if let Bound::Pred(p) = bound { old(self).pred@.push(p) } else { old(self).pred@ }),
//@     | final(self).default == (old(self).default || bound is Default)
//@ end
//@ fn bound.rs Bounds::from
//@   spec r => ensures
//@     | bound is None ==> r.default && r.ty@ == Seq::<Type>::empty() && r.pred@ == Seq::<WherePredicate>::empty(),
//@     | bound matches Some(b) ==> r.ty@ == fold_ty(b.args@, b.args@.len() as int) && r.pred@ == fold_pred(b.args@, b.args@.len() as int)
//@     |     && r.default == fold_dots(b.args@, b.args@.len() as int)
//@   before for b in &bound.args ## #[verus_spec(it => invariant it.seq().len() == bound.args@.len(), forall|i: int| 0 <= i < bound.args@.len() ==> *it.seq()[i] == bound.args@[i], 0 <= it.index@ <= bound.args@.len(), this.ty@ == fold_ty(bound.args@, it.index@), this.pred@ == fold_pred(bound.args@, it.index@), this.default == fold_dots(bound.args@, it.index@))]
//@ end
}

#[verus_verify]
impl WhereClauseBuilder {
    // bound.rs WhereClauseBuilder::expand_self: rewrites `Self` inside the collected types / predicates (syn visitor, out of reach);
    // the bound-resolution contracts are stated on the state before this rewrite
    #[verifier::external_body]
    pub fn expand_self(&mut self, to: &Type) { unimplemented!() }
    // copies the declared where-clause (Punctuated iterator, split_for_impl): out of dialect; retention is checked by layer B
    #[verifier::external_body]
    #[verus_spec(r => ensures r.types@ == Seq::<Type>::empty(), r.preds@ == declared_preds(generics), r.gps == gps_of(generics))]
    pub fn new(generics: &Generics) -> Self { unimplemented!() }
    #[verifier::external_body]
    pub fn build<F: Fn(&Type) -> TokenStream>(self, f: F) -> TokenStream { unimplemented!() }
//@ fn bound.rs WhereClauseBuilder::push_bounds
//@   spec r => ensures st(final(self), r) == step(st(old(self), true), bounds), final(self).gps == old(self).gps
//@   rewrite R5
//@ end
//@ fn bound.rs WhereClauseBuilder::push_bounds_for_field
//@   spec ensures st(final(self), true) == field_default(st(old(self), true), &old(self).gps, &field.ty), final(self).gps == old(self).gps
//@ end
}

#[verus_verify]
impl HelperAttributeForCompareOp {
//@ fn item_type/compare_op.rs HelperAttributeForCompareOp::push_bounds_to
//@   spec ensures st(final(wcb), *final(use_bounds)) == step(st(old(wcb), *old(use_bounds)), &self.bounds), final(wcb).gps == old(wcb).gps
//@ end
}
#[verus_verify]
impl HelperAttributesForCompareOp {
//@ fn item_type/compare_op.rs HelperAttributesForCompareOp::get
//@   spec r => ensures r == attr_of(self, op)
//@ end
//@ fn item_type/compare_op.rs HelperAttributesForCompareOp::push_bounds
//@   spec r => ensures st(final(wcb), r) == helper_cmp(st(old(wcb), true), self, op), final(wcb).gps == old(wcb).gps
//@   rewrite R1 R2u R9
//@   before for source in ## #[verus_spec(iter => invariant iter.seq().len() == 5, forall|i: int| 0 <= i < 5 ==> *iter.seq()[i] == CompareOp_VARIANTS_spec().reverse()[i], 0 <= iter.index@ <= 5, wcb.gps == old(wcb).gps, st(wcb, use_bounds) == foldk(st(old(wcb), true), self, op, iter.index@))]
//@   before use_bounds@-1 ## proof! { reveal_with_fuel(foldk, 6); }
//@ end
}

verus! {
// the order in which the five attributes must be consulted, as a fold (most specific first)
pub open spec fn chain_at(i: int) -> CompareOp {
    if i == 0 { CompareOp::Hash } else if i == 1 { CompareOp::PartialEq } else if i == 2 { CompareOp::Eq } else if i == 3 { CompareOp::PartialOrd } else { CompareOp::Ord }
}
pub open spec fn foldk(s: St, h: &HelperAttributesForCompareOp, tgt: CompareOp, k: int) -> St decreases k {
    if k <= 0 { s } else { step_if(foldk(s, h, tgt, k - 1), h, chain_at(k - 1), tgt) }
}
}

#[verus_verify]
impl DeriveEntry {
//@ fn item_type.rs DeriveEntry::push_bounds_to
//@   spec r => ensures st(final(wcb), r) == entry_phase(st(old(wcb), true), self), final(wcb).gps == old(wcb).gps
//@ end
//@ fn item_type.rs DeriveEntry::push_bounds_to_with
//@   spec r => ensures st(final(wcb), r) == entry_phase(level_phase(st(old(wcb), true), hattrs, kind), self), final(wcb).gps == old(wcb).gps
//@ end
}

#[verus_verify]
impl HelperAttributes {
//@ fn item_type.rs HelperAttributes::push_bounds_to
//@   spec r => ensures st(final(wcb), r) == level_phase(st(old(wcb), use_bounds), self, kind), final(wcb).gps == old(wcb).gps
//@ end
//@ fn item_type.rs HelperAttributes::push_bounds_to_without_helper
//@   spec r => ensures st(final(wcb), r) == items_phase(st(old(wcb), use_bounds), self, kind), final(wcb).gps == old(wcb).gps
//@ end
//@ fn item_type.rs HelperAttributes::push_bounds_to_raw
//@   spec r => ensures st(final(wcb), r) == items_phase(if use_helper { helper_phase(st(old(wcb), use_bounds), self, kind) } else { st(old(wcb), use_bounds) }, self, kind), final(wcb).gps == old(wcb).gps
//@ end
}

#[verus_verify]
impl<'a> FieldEntry<'a> {
//@ fn item_type.rs FieldEntry::push_bounds_to
//@   spec ensures same(final(wcb), field_phase(st(old(wcb), true), use_bounds, &old(wcb).gps, self, kind)), final(wcb).gps == old(wcb).gps
//@ end
}

// In-process expander: real derive-ex sources linked as a library (cfg frozenlib_derive_ex_verif).
// Protocol (stdin): "<mode> <len_a> <len_b>\n" + len_a bytes + len_b bytes; modes: attr, derive, lex, quit.
// Response: one JSON line.
use proc_macro2::TokenStream;
use quote::ToTokens;
use std::io::{BufRead, Read, Write};

fn esc(s: &str) -> String {
    let mut o = String::with_capacity(s.len() + 2);
    o.push('"');
    for c in s.chars() {
        match c {
            '"' => o.push_str("\\\""),
            '\\' => o.push_str("\\\\"),
            '\n' => o.push_str("\\n"),
            '\r' => o.push_str("\\r"),
            '\t' => o.push_str("\\t"),
            c if (c as u32) < 0x20 => o.push_str(&format!("\\u{:04x}", c as u32)),
            c => o.push(c),
        }
    }
    o.push('"');
    o
}

/// canonical rendering: every token separated by one space, punctuation spacing (Joint/Alone) ignored
fn canon(ts: &TokenStream, out: &mut String) {
    for t in ts.clone() {
        match t {
            proc_macro2::TokenTree::Group(g) => {
                let (a, b) = match g.delimiter() {
                    proc_macro2::Delimiter::Parenthesis => ("(", ")"),
                    proc_macro2::Delimiter::Brace => ("{", "}"),
                    proc_macro2::Delimiter::Bracket => ("[", "]"),
                    proc_macro2::Delimiter::None => ("", ""),
                };
                out.push_str(a);
                out.push(' ');
                canon(&g.stream(), out);
                out.push_str(b);
                out.push(' ');
            }
            proc_macro2::TokenTree::Punct(p) => {
                out.push(p.as_char());
                out.push(' ');
            }
            other => {
                out.push_str(&other.to_string());
                out.push(' ');
            }
        }
    }
}
fn canon_s(ts: &TokenStream) -> String {
    let mut s = String::new();
    canon(ts, &mut s);
    s
}

fn compile_error_msg(m: &syn::Macro) -> Option<String> {
    let last = m.path.segments.last()?;
    if last.ident != "compile_error" {
        return None;
    }
    match syn::parse2::<syn::LitStr>(m.tokens.clone()) {
        Ok(l) => Some(l.value()),
        Err(_) => Some(m.tokens.to_string()),
    }
}

/// mode `strip`: remove every attribute whose path is one of `names` from a struct/enum item (type, variants, fields)
fn strip_attrs(names: &str, ts: TokenStream) -> Result<TokenStream, String> {
    let names: Vec<String> = names.split(',').map(|x| x.trim().to_string()).collect();
    let keep = |a: &syn::Attribute| !a.path().get_ident().map(|i| names.contains(&i.to_string())).unwrap_or(false);
    let mut item: syn::Item = syn::parse2(ts).map_err(|e| format!("strip: {e}"))?;
    match &mut item {
        syn::Item::Struct(s) => {
            s.attrs.retain(keep);
            for f in s.fields.iter_mut() { f.attrs.retain(keep); }
        }
        syn::Item::Enum(e) => {
            e.attrs.retain(keep);
            for v in e.variants.iter_mut() {
                v.attrs.retain(keep);
                for f in v.fields.iter_mut() { f.attrs.retain(keep); }
            }
        }
        _ => {}
    }
    Ok(item.to_token_stream())
}

fn describe_items(ts: &TokenStream) -> Option<String> {
    let file: syn::File = syn::parse2(ts.clone()).ok()?;
    let mut v = Vec::new();
    for item in &file.items {
        let tokens = item.to_token_stream().to_string();
        let mut kind = "other";
        let mut extra = String::new();
        match item {
            syn::Item::Struct(_) => kind = "struct",
            syn::Item::Enum(_) => kind = "enum",
            syn::Item::Const(_) => kind = "const",
            syn::Item::Fn(_) => kind = "fn",
            syn::Item::Impl(i) => {
                kind = "impl";
                if let Some((_, p, _)) = &i.trait_ {
                    extra.push_str(&format!(",\"trait\":{}", esc(&p.to_token_stream().to_string())));
                }
                extra.push_str(&format!(",\"self_ty\":{}", esc(&i.self_ty.to_token_stream().to_string())));
                let (_, _, w) = i.generics.split_for_impl();
                let preds: Vec<String> = match w {
                    Some(w) => w.predicates.iter().map(|p| esc(&p.to_token_stream().to_string())).collect(),
                    None => vec![],
                };
                extra.push_str(&format!(",\"where\":[{}]", preds.join(",")));
                extra.push_str(&format!(",\"impl_generics\":{}", esc(&i.generics.params.to_token_stream().to_string())));
                let body: Vec<String> = i.items.iter().map(|x| esc(&x.to_token_stream().to_string())).collect();
                extra.push_str(&format!(",\"body\":[{}]", body.join(",")));
            }
            syn::Item::Macro(m) => {
                kind = "macro";
                if let Some(msg) = compile_error_msg(&m.mac) {
                    kind = "compile_error";
                    extra.push_str(&format!(",\"msg\":{}", esc(&msg)));
                }
            }
            _ => {}
        }
        extra.push_str(&format!(",\"canon\":{}", esc(&canon_s(&item.to_token_stream()))));
        v.push(format!("{{\"kind\":{},\"tokens\":{}{}}}", esc(kind), esc(&tokens), extra));
    }
    Some(format!("[{}]", v.join(",")))
}

fn respond(out: &mut impl Write, status: &str, ts: Option<TokenStream>, note: &str) {
    let mut s = format!("{{\"status\":{}", esc(status));
    if !note.is_empty() {
        s.push_str(&format!(",\"note\":{}", esc(note)));
    }
    if let Some(ts) = ts {
        s.push_str(&format!(",\"out\":{}", esc(&ts.to_string())));
        s.push_str(&format!(",\"canon\":{}", esc(&canon_s(&ts))));
        match describe_items(&ts) {
            Some(items) => s.push_str(&format!(",\"items\":{}", items)),
            None => s.push_str(",\"items\":null"),
        }
    }
    s.push('}');
    writeln!(out, "{}", s).unwrap();
    out.flush().unwrap();
}

fn main() {
    std::panic::set_hook(Box::new(|_| {}));
    let stdin = std::io::stdin();
    let mut inp = stdin.lock();
    let stdout = std::io::stdout();
    let mut out = stdout.lock();
    loop {
        let mut header = String::new();
        if inp.read_line(&mut header).unwrap() == 0 {
            break;
        }
        let parts: Vec<&str> = header.split_whitespace().collect();
        if parts.is_empty() {
            continue;
        }
        if parts[0] == "quit" {
            break;
        }
        let la: usize = parts[1].parse().unwrap();
        let lb: usize = parts[2].parse().unwrap();
        let mut a = vec![0u8; la];
        let mut b = vec![0u8; lb];
        inp.read_exact(&mut a).unwrap();
        inp.read_exact(&mut b).unwrap();
        let a = String::from_utf8(a).unwrap();
        let b = String::from_utf8(b).unwrap();
        let mode = parts[0].to_string();
        let r = std::panic::catch_unwind(move || -> Result<TokenStream, String> {
            let a: TokenStream = a.parse().map_err(|e| format!("lex a: {e}"))?;
            let b: TokenStream = b.parse().map_err(|e| format!("lex b: {e}"))?;
            Ok(match mode.as_str() {
                "attr" => derive_ex::verif_hooks::expand_attr(a, b),
                "derive" => derive_ex::verif_hooks::expand_derive(b),
                "lex" => b,
                "strip" => return strip_attrs(&a.to_string(), b),
                _ => return Err("bad mode".into()),
            })
        });
        match r {
            Ok(Ok(ts)) => respond(&mut out, "ok", Some(ts), ""),
            Ok(Err(e)) => respond(&mut out, "lexerr", None, &e),
            Err(p) => {
                let msg = if let Some(s) = p.downcast_ref::<String>() {
                    s.clone()
                } else if let Some(s) = p.downcast_ref::<&str>() {
                    s.to_string()
                } else {
                    "?".into()
                };
                respond(&mut out, "panic", None, &msg)
            }
        }
    }
}

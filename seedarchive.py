#!/usr/bin/env python3
"""seedarchive.py <PID> <seedname> <caught_by text> : copy the sub-agent's SEED dir into /verif/seeded/<seedname>/ and annotate meta.json"""
import sys, os, shutil, json, html
pid, name, caught = sys.argv[1], sys.argv[2], sys.argv[3]
src = "/tmp/seed_%s/SEED" % pid
dst = "/verif/seeded/%s" % name
if os.path.exists(dst):
    shutil.rmtree(dst)
shutil.copytree(src, dst, ignore=shutil.ignore_patterns("target", "Cargo.lock"))
m = json.load(open(os.path.join(dst, "meta.json")))
m["breaks_property"] = pid
m["builder_confirmation"] = {
    "ran": ["/verif/seedconfirm.sh %s  (existing suite with the change: 397 passed / 0 failed incl. doctests; demonstration fails with the change, passes without)" % pid,
            "/verif/seedtest.sh %s %s/patch.diff <props>  (git -C /repo apply; ./check; git -C /repo checkout -- .)" % (name, dst)],
    "confirm_log": open("/tmp/seedhold/%s.with" % pid).read()[-600:] if os.path.exists("/tmp/seedhold/%s.with" % pid) else "",
}
m["caught_by"] = caught
json.dump(m, open(os.path.join(dst, "meta.json"), "w"), indent=1)
print("archived", dst)

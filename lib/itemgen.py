"""Structured random struct/enum/impl items with foreign and helper attributes, for the expander-level (layer B) checks of
C14, C15, C16, C19.  Items are kept as data so that the reference output (item minus owned attributes) can be rendered."""
import random, re
import refmodel as R

FOREIGN = ['#[doc = "text"]', '/// a doc comment', '#[repr(C)]', '#[cfg_attr(all(), allow(dead_code))]', '#[allow(unused)]',
           '#[serde(rename = "x")]', '#[a::b(c, d = 1)]', '#[must_use]', '#[non_exhaustive]', '/** block doc */', '#[rustfmt::skip]', '#[cfg(all())]',
           # foreign *path* attributes whose last segment merely looks like an owned name: never derive_ex's to strip
           '#[probe::debug]', '#[clippy::eq]', '#[a::hash(x)]', '#[x::derive_ex(Clone)]', '#[tool::default]', '#[a::b::ord(reverse)]', '#[::partial_eq::x]',
           # single-identifier attributes spelled like an owned name up to case / underscores: foreign
           '#[Hash]', '#[Eq]', '#[Partial_Eq(x)]', '#[partialeq]', '#[ORD]', '#[Debug]', '#[DEFAULT = 1]', '#[Derive_Ex(Clone)]', '#[deriveex]', '#[partialord(reverse)]',
           # attributes the generator reads to decide about lint attributes of the impls: both entry points must read them alike
           '#[expect(deprecated)]', '#[allow(deprecated)]', '#[deprecated]', '#[expect(warnings)]', '#[warn(deprecated)]', '#[deny(unused)]', '#[deprecated(note = "n")]',
           '#[allow(dead_code, reason = "kept for later")]', '#[expect(unused, reason = "x; y")]', '#[allow(clippy::deprecated_cfg_attr)]', '#[allow()]']
FIELD_FOREIGN = ['#[doc = "f"]', '/// field doc', '#[serde(skip)]', '#[allow(dead_code)]', '#[a::b]', '#[cfg(all())]',
                 '#[probe::debug(ignore)]', '#[clippy::eq]', '#[a::hash = 1]', '#[tool::default(3)]', '#[a::partial_ord(key = x)]', '#[::ord::y]', '#[x::derive_ex(Clone)]',
                 '#[Hash(ignore)]', '#[Eq]', '#[Partial_Eq]', '#[partialeq(key = x)]', '#[ORD]', '#[Debug(ignore)]', '#[Default(3)]', '#[Partial_Ord(reverse)]', '#[expect(deprecated)]', '#[allow(warnings)]', '#[deprecated]', '#[allow(dead_code, reason = "field")]']
VIS = ["", "pub ", "pub(crate) ", "pub(super) ", "pub(in crate::m) "]
GENERICS = [("", ""), ("<T>", ""), ("<T: Clone, U>", ""), ("<'a, T: 'a>", ""), ("<T = u8>", ""), ("<T, const N: usize>", ""), ("<const N: usize = 3>", ""),
            ("<T>", " where T: Copy"), ("<'a, 'b: 'a, T>", " where T: 'b + Sized, u8: Copy")]
TRAITS_ENUM = ["Copy", "Clone", "Debug", "Default"] + R.CMP_TRAITS
OPS = ["Add", "Sub", "Mul", "BitAnd", "Shl", "AddAssign", "SubAssign", "ShrAssign", "Neg", "Not"]
TRAITS_STRUCT = TRAITS_ENUM + OPS + ["Deref", "DerefMut"]
HELPER_NAMES = ["default", "debug"] + R.OPS


def owned_names(derived):
    """attribute names that the documentation assigns to the derived traits"""
    s = {"derive_ex"}
    if "Default" in derived:
        s.add("default")
    if "Debug" in derived:
        s.add("debug")
    s |= set(R.parsed_attrs([t for t in derived if t in R.AFFECTS]))
    return s


class Attr:
    def __init__(self, text, name=None):
        self.text, self.name = text, name      # name: helper / derive_ex attribute name, None for foreign


class FieldD:
    def __init__(self, name, ty, attrs, vis=""):
        self.name, self.ty, self.attrs, self.vis = name, ty, attrs, vis


class VariantD:
    def __init__(self, name, kind, fields, attrs, disc=None):
        self.name, self.kind, self.fields, self.attrs, self.disc = name, kind, fields, attrs, disc


class ItemD:
    def __init__(self, is_enum, attrs, vis, generics, where, variants):
        self.is_enum, self.attrs, self.vis, self.generics, self.where, self.variants = is_enum, attrs, vis, generics, where, variants

    def render(self, keep=lambda a: True):
        def at(attrs):
            return " ".join(a.text + ("\n" if a.text.startswith("//") else "") for a in attrs if keep(a))
        def fields(kind, fs):
            if kind == "unit":
                return ""
            items = ["%s %s%s%s" % (at(f.attrs), f.vis, (f.name + ": ") if kind == "named" else "", f.ty) for f in fs]
            return (" { %s }" if kind == "named" else "(%s)") % ", ".join(items)
        if self.is_enum:
            vs = ["%s %s%s%s" % (at(v.attrs), v.name, fields(v.kind, v.fields), (" = %s" % v.disc) if v.disc is not None else "") for v in self.variants]
            return "%s %senum X%s%s { %s }" % (at(self.attrs), self.vis, self.generics, self.where, ", ".join(vs))
        v = self.variants[0]
        if v.kind == "named":
            return "%s %sstruct X%s%s%s" % (at(self.attrs), self.vis, self.generics, self.where, fields(v.kind, v.fields))
        return "%s %sstruct X%s%s%s;" % (at(self.attrs), self.vis, self.generics, fields(v.kind, v.fields), self.where)


def tyvars(generics):
    return [m for m in re.findall(r"[<,]\s*(?:const\s+)?([A-Z]\w*)", generics)]


def random_item(rng, derived=None, helper_for_underived=True, foreign_density=0.5, valid=True):
    """returns (ItemD, derived list). With valid=True the helper attributes are ones the macro accepts for `derived`."""
    is_enum = rng.random() < 0.5
    gens, where = rng.choice(GENERICS)
    tv = [v for v in tyvars(gens) if v != "N"]
    pool = TRAITS_ENUM if is_enum else TRAITS_STRUCT
    if derived is None:
        k = rng.randint(1, 4)
        derived = rng.sample(pool, k)
        # keep supertrait-closure irrelevant: expansion does not care
    derived = [t for t in derived if t in pool]
    if not derived:
        derived = ["Clone"]
    cmpd = [t for t in derived if t in R.AFFECTS]
    acc = None

    def foreign(pool_):
        return [Attr(rng.choice(pool_)) for _ in range(3) if rng.random() < foreign_density]

    def field_attrs():
        out = foreign(FIELD_FOREIGN)
        if cmpd and rng.random() < 0.5:
            nonlocal acc
            if acc is None:
                import cmpfam
                acc = cmpfam.accepted_for(tuple(t for t in R.CMP_TRAITS if t in cmpd))
            c = rng.choice(acc)
            for a in R.OPS:
                if c[a]:
                    out.append(Attr(R.attr_text(c, only=[a]), a))
        if "Debug" in derived and rng.random() < 0.3:
            out.append(Attr("#[debug(ignore)]", "debug"))
        if "Default" in derived and rng.random() < 0.3:
            out.append(Attr(rng.choice(['#[default(1)]', '#[default(Default::default())]', '#[default(_, bound())]']), "default"))
        if helper_for_underived and rng.random() < 0.25:
            # helper-named attributes of traits that are NOT derived are foreign and must be kept
            cand = [n for n in HELPER_NAMES if n not in owned_names(derived)]
            if cand:
                n = rng.choice(cand)
                out.append(Attr("#[%s(ignore)]" % n if n not in ("default",) else "#[default(3)]", n))
        rng.shuffle(out)
        return out

    def mkfields(kind, single=False):
        if kind == "unit":
            return []
        n = 1 if single else rng.randint(0, 3)
        tys = ["u8", "String", "Option<u8>", "&'static str"] + (["Option<%s>" % tv[0], tv[0]] if tv else [])
        return [FieldD("f%d" % i, rng.choice(tys), field_attrs(), rng.choice(["", "", "pub ", "pub(crate) "])) for i in range(n)]

    single = any(t in ("Deref", "DerefMut") for t in derived)
    if is_enum:
        nv = rng.randint(1, 3)
        vs = []
        use_disc = rng.random() < 0.2
        for i in range(nv):
            kind = "unit" if use_disc else rng.choice(["unit", "tuple", "named"])
            va = foreign(FIELD_FOREIGN)
            if "Default" in derived and i == 0 and nv > 1:
                va.append(Attr("#[default]", "default"))
            vs.append(VariantD("ABC"[i], kind, mkfields(kind), va, disc=str(i * 2 + 1) if use_disc else None))
    else:
        kind = rng.choice(["tuple", "named"]) if single else rng.choice(["unit", "tuple", "named"])
        vs = [VariantD("X", kind, mkfields(kind, single), [])]
    attrs = foreign(FOREIGN)
    attrs = [a for a in attrs if not (a.text == "#[non_exhaustive]" and False)]
    if rng.random() < 0.3 and "Debug" in derived:
        attrs.append(Attr("#[debug(bound())]", "debug"))
    if rng.random() < 0.2 and cmpd:
        a = rng.choice(R.parsed_attrs(cmpd))
        attrs.append(Attr("#[%s(bound(..))]" % a, a))
    rng.shuffle(attrs)
    it = ItemD(is_enum, attrs, rng.choice(VIS), gens, where, vs)
    return it, derived

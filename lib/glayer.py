"""Run G units for a property and turn failed obligations into violations."""
import json, os, re
import gx
from common import VERIF, Undecided

BASELINE = os.path.join(VERIF, "contracts", "baseline_obligations.json")
_cache = {}


def load_baseline():
    if os.path.exists(BASELINE):
        return json.load(open(BASELINE))
    return {}


def unit_result(name):
    if name not in _cache:
        _cache[name] = gx.run_unit(name)
    return _cache[name]


def structmeta_flag_check():
    """The prelude's Flag stand-in is compared with the registry source text on every run."""
    import glob
    for p in glob.glob(os.path.expanduser("~/.cargo/registry/src/*/structmeta-0.3.0/src/arg_types.rs")):
        t = re.sub(r'\s+', ' ', open(p).read())
        return "pub struct Flag { pub span: Option<Span>, }" in t and "pub fn value(&self) -> bool { self.span.is_some() }" in t
    return None


def run_g(ctx, units):
    """units: {unit: [function names relevant to this property] or None for all}. Returns evidence dict."""
    base = load_baseline()
    ev = {"units": [], "obligations": 0, "discharged": 0, "functions_under_contract": [], "assumption_scan": {}, "smt_ms": 0, "wall_s": 0}
    for unit, relevant in units.items():
        try:
            r = unit_result(unit)
        except Undecided as e:
            # a unit the verifier cannot process is undecided for its obligations only; other layers still report
            ctx.undecided.append(str(e)[:600])
            ev["units"].append({"unit": unit, "undecided": str(e)[:300]})
            continue
        funcs = dict(r["functions"])
        for f, why in r.get("undecided_functions", {}).items():
            funcs.pop(f, None)
            if relevant is None or f in relevant:
                ctx.undecided.append("G:%s:%s undecided: %s" % (unit, f, why[:300]))
        expected = [f for f in base.get(unit, {}).get("functions", []) if f not in r.get("undecided_functions", {})]
        missing = [f for f in expected if f not in funcs]
        if missing:
            raise Undecided("unit %s: obligations %s known from the baseline were not generated (vacuity guard)" % (unit, missing))
        if not funcs:
            raise Undecided("unit %s generated zero obligations" % unit)
        rel = [f for f in funcs if relevant is None or f in relevant]
        if relevant:
            lost = [f for f in relevant if f not in funcs and f not in r.get("undecided_functions", {})]
            if lost:
                raise Undecided("unit %s: contracted functions %s produced no obligation" % (unit, lost))
        ev["obligations"] += len(rel)
        ev["discharged"] += sum(1 for f in rel if funcs[f])
        ev["smt_ms"] += r["smt_ms"]
        ev["wall_s"] += r["wall_s"]
        ev["units"].append({"unit": unit, "file": os.path.relpath(r["path"], VERIF), "verified": r["verified"], "errors": r["errors"],
                            "extracted": r["items"], "rewrites_applied": r["rewrites"], "verus": r["verus_version"], "wall_s": r["wall_s"]})
        ev["functions_under_contract"] += ["%s::%s" % (unit, f) for f in rel]
        for k, v in gx.scan_assumptions(r["text"]).items():
            ev["assumption_scan"][k] = ev["assumption_scan"].get(k, 0) + v
        for f in r["failures"]:
            item = next((s["item"] for s in f["source"] if s), None)
            # attribute the failure to a function: the item whose generated text contains the primary span
            fn = item or "?"
            if relevant is not None and fn not in relevant and fn != "?":
                continue
            key = "G:%s:%s:%s" % (unit, fn, f["message"])
            if expected and fn in expected or not expected:
                ctx.g_failures.append({"key": key, "unit": unit, "function": fn, "message": f["message"], "contract_line": f["text"],
                                       "source": f["source"], "verus_output": f["rendered"]})
            else:
                ctx.undecided.append("new obligation %s never passed on the pinned tree" % key)
    return ev

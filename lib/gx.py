"""Layer G: mechanical extraction of real functions from /repo into a single Verus file, every run.

A unit is a template `contracts/<unit>.rs`: ordinary Rust/Verus text (prelude types, spec vocabulary, lemmas,
`impl` headers) plus directive blocks that are replaced by text copied from /repo:

  //@ fn <file> <Type::name | name | <Trait for Type>::name>      copy a function
  //@   spec <verus_spec text, may continue on following `//@   |` lines>
  //@   attr <attribute text>                                       extra attribute (e.g. #[verifier::external_body])
  //@   before <anchor>[@n] ## <text>                               insert ghost/annotation text before the n-th anchor
  //@   after  <anchor>[@n] ## <text>
  //@   rewrite R1|R3|R4|R5|R8                                         apply a listed rewrite (see REWRITES)
  //@ end
  //@ struct <file> <Name>      copy a struct definition (derive/struct_meta attributes dropped, fields made pub)
  //@ enum <file> <Name>        copy an enum definition (derive attributes dropped)
  //@ constseq <file> <Type::NAME>   R2: `const NAME: &'static [T] = &[..]` -> external fn + spec seq![..] from the literal

Everything the extraction changes is one of REWRITES; anything else it cannot handle raises Undecided.
"""
import os, re, json, time
from common import SRC, BUILD, VERIF, Undecided, sh, env_with

REWRITES = {
    "R1": "`for &x in E {` -> `for x in E { let x = *x;` (ref patterns unsupported by Verus)",
    "R2": "`const NAME: &'static [T] = &[..];` -> external fn NAME_r2() whose spec seq![..] is generated from the same literal; uses `Self::NAME`/`T::NAME` -> `T::NAME_r2()`",
    "R3": "in a for body, `if C { continue; } REST` -> `if !(C) { REST }` (Verus for-loops do not support continue)",
    "R4": "tuple pattern in a parameter list `(a, b): (A, B)` -> `p_r4: (A, B)` + `let (a, b) = p_r4;`",
    "R5": "`x.extend(y.iter().cloned())` -> `vec_extend_cloned(&mut x, &y)` (iterator adapters unsupported)",
    "R6": "visibility `pub(super)` / `pub(crate)` / private -> `pub`; struct fields made `pub` (open spec fns need them); #[derive(..)], #[struct_meta(..)] attributes on copied types dropped",
    "R9": "`C.iter().rev()` over a const slice literal C -> external fn C_r2_rev() whose spec is the reversed literal (semantics of slice::iter().rev() trusted)",
    "R11": "`for x in [a, b] { BODY }` over an array literal -> unrolled blocks `{ let x = a; BODY } { let x = b; BODY }`",
    "R12": "`let v = RECV.and_then(|p| BODY);` -> `let v = match RECV { Some(p) => BODY, None => None };` (definition of Option::and_then; closures in argument position unsupported)",
    "R13": "`x.extend(y);` with a Vec-valued place `y` (field / local) -> `vec_extend_owned(&mut x, y);` (Extend is generic over IntoIterator; semantics of Vec::extend(Vec) trusted: appends in order)",
    "R15": "`RECV.iter().all(|x| BODY)` -> `iter_all_r15(&RECV, |x| BODY)`, a loop over the Vec-modelled sequence verified in the unit itself against the closure's contract (iterator adapters unsupported)",
    "R14": "`a |= b;` on two bool places (b a field / local read) -> `a = a || b;` (Verus rejects `|` on bool)",
    "R10": "`a | b` on two bool places (field / local reads) -> `a || b` (Verus rejects `|` on bool)",
    "R8": "`impl Trait` / `impl Fn(..)` argument position and generic closures: `to_expr: impl Fn(&FieldEntry) -> TokenStream` kept; only if listed per function",
}


def code_mask(text):
    """mask[i] True iff text[i] is code (outside comments, string/char literals)."""
    n = len(text)
    mask = [True] * n
    i = 0
    while i < n:
        c = text[i]
        if c == '/' and i + 1 < n and text[i + 1] == '/':
            j = text.find('\n', i)
            j = n if j < 0 else j
            for k in range(i, j):
                mask[k] = False
            i = j
        elif c == '/' and i + 1 < n and text[i + 1] == '*':
            depth, j = 1, i + 2
            while j < n and depth:
                if text.startswith('/*', j):
                    depth += 1; j += 2
                elif text.startswith('*/', j):
                    depth -= 1; j += 2
                else:
                    j += 1
            for k in range(i, j):
                mask[k] = False
            i = j
        elif c == '"' or (c == 'r' and re.match(r'r#*"', text[i:i + 8]) and (i == 0 or not (text[i - 1].isalnum() or text[i - 1] == '_'))):
            if c == 'r':
                m = re.match(r'r(#*)"', text[i:])
                close = '"' + m.group(1)
                j = text.find(close, i + len(m.group(0)))
                j = n if j < 0 else j + len(close)
            else:
                j = i + 1
                while j < n and text[j] != '"':
                    j += 2 if text[j] == '\\' else 1
                j += 1
            for k in range(i + 1, min(j, n) - 1):
                mask[k] = False
            i = j
        elif c == "'":
            m = re.match(r"'(\\.[^']*|[^\\'])'", text[i:])
            if m:
                for k in range(i + 1, i + len(m.group(0)) - 1):
                    mask[k] = False
                i += len(m.group(0))
            else:
                i += 1
        else:
            i += 1
    return mask


OPEN, CLOSE = "({[", ")}]"


def match_close(text, mask, i):
    """index of the bracket closing the one at i"""
    depth = 0
    for j in range(i, len(text)):
        if not mask[j]:
            continue
        if text[j] in OPEN:
            depth += 1
        elif text[j] in CLOSE:
            depth -= 1
            if depth == 0:
                return j
    raise Undecided("unbalanced bracket at %d" % i)


class Src:
    def __init__(self, rel):
        self.rel = rel
        self.path = os.path.join(SRC, rel)
        if not os.path.exists(self.path):
            raise Undecided("lost anchor: source file %s not found" % rel)
        self.text = open(self.path).read()
        self.mask = code_mask(self.text)
        # brace depth before each char
        d, self.depth = 0, []
        for i, c in enumerate(self.text):
            self.depth.append(d)
            if self.mask[i]:
                if c == '{':
                    d += 1
                elif c == '}':
                    d -= 1
                    self.depth[i] = d

    def line_of(self, pos):
        return self.text.count('\n', 0, pos) + 1

    def _item_start(self, pos):
        """extend to the start of the line, then upwards over attribute and doc-comment lines"""
        s = self.text.rfind('\n', 0, pos) + 1
        while s > 0:
            p = self.text.rfind('\n', 0, s - 1) + 1
            l = self.text[p:s].strip()
            if l.startswith('#[') or l.startswith('///'):
                s = p
            else:
                break
        return s

    def impl_regions(self, type_name, trait=None):
        out = []
        for m in re.finditer(r'(?m)^[ \t]*impl\b([^{;]*)\{', self.text):
            if not self.mask[m.start()] :
                continue
            hdr = m.group(1)
            # strip leading generics
            h = hdr.strip()
            if h.startswith('<'):
                dd, k = 0, 0
                for k, ch in enumerate(h):
                    if ch == '<':
                        dd += 1
                    elif ch == '>' and h[k - 1] != '-':
                        dd -= 1
                        if dd == 0:
                            break
                h = h[k + 1:].strip()
            h = re.sub(r'\bwhere\b.*', '', h, flags=re.S).strip()
            if ' for ' in h:
                tr, ty = [x.strip() for x in h.split(' for ', 1)]
            else:
                tr, ty = None, h
            ty_base = re.match(r'[\w:]+', ty)
            ty_base = ty_base.group(0) if ty_base else ty
            if ty_base != type_name:
                continue
            if trait is None and tr is not None:
                continue
            if trait is not None and (tr is None or re.match(r'[\w:]+', tr).group(0).split('::')[-1] != trait):
                continue
            ob = m.end() - 1
            out.append((ob, match_close(self.text, self.mask, ob)))
        return out

    def find_fn(self, path):
        """path: `name`, `Type::name`, `<Trait for Type>::name` -> (start, sig_end(index of body '{'), end(index after '}'))"""
        m = re.match(r'<(\w+) for (\w+)>::(\w+)$', path)
        if m:
            regions = self.impl_regions(m.group(2), m.group(1)); name = m.group(3); want_depth = None
        elif '::' in path:
            ty, name = path.rsplit('::', 1)
            regions = self.impl_regions(ty); want_depth = None
        else:
            regions = [(-1, len(self.text))]; name = path; want_depth = 0
        hits = []
        for (a, b) in regions:
            base = 0 if a < 0 else self.depth[a] + 1
            for m in re.finditer(r'\bfn\s+%s\b' % re.escape(name), self.text[max(a, 0):b]):
                p = max(a, 0) + m.start()
                if self.mask[p] and self.depth[p] == base:
                    hits.append(p)
        if len(hits) != 1:
            raise Undecided("lost anchor: fn %s in %s found %d times" % (path, self.rel, len(hits)))
        p = hits[0]
        # body: first '{' at bracket depth 0 after the parameter list
        j = self.text.index('(', p)
        j = match_close(self.text, self.mask, j) + 1
        while not (self.mask[j] and self.text[j] in '{;'):
            j += 1
        if self.text[j] == ';':
            raise Undecided("fn %s has no body" % path)
        e = match_close(self.text, self.mask, j) + 1
        return self._item_start(p), j, e

    def find_type(self, kw, name):
        hits = [m for m in re.finditer(r'\b%s\s+%s\b' % (kw, re.escape(name)), self.text) if self.mask[m.start()] and self.depth[m.start()] == 0]
        if len(hits) != 1:
            raise Undecided("lost anchor: %s %s in %s found %d times" % (kw, name, self.rel, len(hits)))
        p = hits[0].start()
        j = hits[0].end()
        while not (self.mask[j] and self.text[j] in '{;('):
            j += 1
        if self.text[j] == '{':
            e = match_close(self.text, self.mask, j) + 1
        elif self.text[j] == '(':
            e = match_close(self.text, self.mask, j) + 1
            while self.text[e] != ';':
                e += 1
            e += 1
        else:
            e = j + 1
        return self._item_start(p), p, e

    def find_const(self, path):
        ty, name = path.rsplit('::', 1)
        for (a, b) in self.impl_regions(ty):
            m = re.search(r'\bconst\s+%s\s*:\s*([^=]+)=\s*' % re.escape(name), self.text[a:b])
            if m and self.mask[a + m.start()]:
                s = a + m.start()
                e = self.text.index(';', a + m.end())
                return s, a + m.end(), e + 1, m.group(1).strip()
        raise Undecided("lost anchor: const %s in %s" % (path, self.rel))


_srcs = {}


def src(rel):
    if rel not in _srcs:
        _srcs[rel] = Src(rel)
    return _srcs[rel]


def reset_sources():
    _srcs.clear()


# ------------------------------------------------------------------ rewrites on a copied function text
def rw_R1(t):
    n = 0
    def f(m):
        nonlocal n
        n += 1
        return "for %s in %s {\n let %s = *%s;" % (m.group(1), m.group(2), m.group(1), m.group(1))
    t = re.sub(r'for &(\w+) in ([^{]+?)\s*\{', f, t)
    return t, n


def rw_R2_uses(t):
    t2, n = re.subn(r'\b(\w+)::([A-Z][A-Z_]+)\b(?!\s*\()', lambda m: "%s::%s_r2()" % (m.group(1), m.group(2)) if m.group(2) == 'VARIANTS' else m.group(0), t)
    return t2, n


def rw_R9(t):
    return re.subn(r'(\w+::[A-Z_]+_r2)\(\)\.iter\(\)\.rev\(\)', r'\1_rev()', t)


def rw_R10(t):
    """`a | b` on two boolean places -> `a || b` (Verus rejects `|` on bool; operands are side-effect free field/local reads)"""
    return re.subn(r'(\b[a-z_]\w*(?:\.[a-z_]\w*)*) \| ([a-z_]\w*(?:\.[a-z_]\w*)*\b)(?=\s*,)', r'\1 || \2', t)


def rw_R11(t):
    """`for x in [a, b, ..] { BODY }` over an array literal -> `{ let x = a; BODY } { let x = b; BODY } ..` (by-value array iteration unsupported)"""
    n = 0
    while True:
        m = None
        for mm in re.finditer(r'for (\w+) in \[([^\[\]{};]+)\]\s*\{', t):
            m = mm          # innermost-last: take the last match so nested loops unroll inside out
        if not m:
            break
        mask = code_mask(t)
        ob = m.end() - 1
        cb = match_close(t, mask, ob)
        body = t[ob + 1:cb]
        elems = [e.strip() for e in m.group(2).split(',') if e.strip()]
        rep = " ".join("{ let %s = %s; %s }" % (m.group(1), e, body) for e in elems)
        t = t[:m.start()] + rep + t[cb + 1:]
        n += 1
    return t, n


def rw_R3(t):
    """`if C {\n continue;\n }` directly in a for body -> wrap the remainder of that body."""
    n = 0
    while True:
        m = re.search(r'if ([^{}]+?)\s*\{\s*continue;\s*\}', t)
        if not m:
            break
        mask = code_mask(t)
        # enclosing block: nearest unmatched '{' before m.start()
        depth, k = 0, m.start() - 1
        while k >= 0:
            if mask[k]:
                if t[k] == '}':
                    depth += 1
                elif t[k] == '{':
                    if depth == 0:
                        break
                    depth -= 1
            k -= 1
        if k < 0:
            raise Undecided("R3: no enclosing block")
        close = match_close(t, mask, k)
        t = t[:m.start()] + "if !(%s) {" % m.group(1).strip() + t[m.end():close] + "}\n" + t[close:]
        n += 1
    return t, n


def rw_R4(t):
    n = 0
    m = re.search(r'\((\(\s*\w+\s*,\s*\w+\s*\)):\s*(\([^)]*\))', t)
    if m:
        body = t.index('{', m.end())
        t = t[:m.start()] + "(p_r4: " + m.group(2) + t[m.end():body + 1] + "\n    let %s = p_r4;" % m.group(1) + t[body + 1:]
        n = 1
    return t, n


def rw_R5(t):
    return re.subn(r'(\w+(?:\.\w+)*)\.extend\((\w+(?:\.\w+)*)\.iter\(\)\.cloned\(\)\)', r'vec_extend_cloned(&mut \1, &\2)', t)


def rw_R13(t):
    return re.subn(r'(?m)^(\s*)(\w+(?:\.\w+)*)\.extend\((\w+(?:\.\w+)*)\);', r'\1vec_extend_owned(&mut \2, \3);', t)


def rw_R15(t):
    return re.subn(r'(\b[a-z_]\w*(?:\.[a-z_]\w*)*)\s*\.iter\(\)\s*\.all\(', r'iter_all_r15(&\1, ', t)


def rw_R14(t):
    return re.subn(r'(?m)^(\s*)([a-z_]\w*) \|= ([a-z_]\w*(?:\.[a-z_]\w*)*);', r'\1\2 = \2 || \3;', t)


def rw_R12(t):
    """`let v = RECV.and_then(|p| BODY);` -> `let v = match RECV { Some(p) => BODY, None => None };` (the definition of Option::and_then;
    closures in argument position are outside the Verus attribute dialect)"""
    n = 0
    while True:
        m = re.search(r'\.and_then\(\|(\w+)\|\s*', t)
        if not m:
            break
        mask = code_mask(t)
        op = t.index('(', m.start())
        cp = match_close(t, mask, op)
        body = t[m.end():cp].strip()
        # receiver: back to the `=` of the enclosing let statement
        eq = t.rfind('=', 0, m.start())
        let = t.rfind('let ', 0, eq)
        if eq < 0 or let < 0 or ';' in t[let:m.start()]:
            raise Undecided("R12: and_then not in `let v = RECV.and_then(|p| BODY)` form")
        recv = " ".join(t[eq + 1:m.start()].split())
        t = t[:eq + 1] + " match %s { Some(%s) => %s, None => None }" % (recv, m.group(1), body) + t[cp + 1:]
        n += 1
    return t, n


def rw_vis(t):
    return re.subn(r'\bpub\((?:super|crate)\)\s+', 'pub ', t)


RW = {"R13": rw_R13, "R14": rw_R14, "R15": rw_R15, "R12": rw_R12, "R11": rw_R11, "R10": rw_R10, "R9": rw_R9, "R1": rw_R1, "R3": rw_R3, "R4": rw_R4, "R5": rw_R5, "R2u": rw_R2_uses}


def _occ(text, anchor, n):
    if n < 0:
        idx = len(text)
        for _ in range(-n):
            idx = text.rfind(anchor, 0, idx)
            if idx < 0:
                raise Undecided("lost anchor: `%s` (occurrence %d)" % (anchor, n))
        return idx
    idx = -1
    for _ in range(n):
        idx = text.find(anchor, idx + 1)
        if idx < 0:
            raise Undecided("lost anchor: `%s` (occurrence %d)" % (anchor, n))
    return idx


class Unit:
    def __init__(self, name, external=()):
        self.name = name
        self.external = set(external)       # functions whose body is not verified in this run (reported as undecided)
        self.undecided = {}                 # function -> reason
        self.tpl_path = os.path.join(VERIF, "contracts", name + ".rs")
        self.items = []       # evidence: what was copied
        self.linemap = []     # (gen_line_start, gen_line_end, file, src_line_start, label)
        self.rewrites_used = {}

    def _use(self, r, n):
        if n:
            self.rewrites_used[r] = self.rewrites_used.get(r, 0) + n

    def render(self):
        reset_sources()
        lines = open(self.tpl_path).read().split('\n')
        out = []
        i = 0
        while i < len(lines):
            l = lines[i]
            s = l.strip()
            if not s.startswith('//@ '):
                out.append(l)
                i += 1
                continue
            parts = s[4:].split()
            kind = parts[0]
            if kind == 'fn':
                rel, path = parts[1], parts[2]
                subs = []
                i += 1
                while lines[i].strip() != '//@ end':
                    subs.append(lines[i].strip())
                    i += 1
                i += 1
                out.extend(self._fn(rel, path, subs, len(out) + 1))
            elif kind in ('struct', 'enum'):
                out.extend(self._type(kind, parts[1], parts[2], len(out) + 1, noderive=('noderive' in parts[3:]), structural=('structural' in parts[3:])))
                i += 1
            elif kind == 'constseq':
                out.extend(self._constseq(parts[1], parts[2]))
                i += 1
            elif kind == 'include':
                inc = open(os.path.join(VERIF, "contracts", parts[1])).read().split('\n')
                lines[i:i + 1] = inc
            else:
                raise Undecided("bad directive: " + s)
        return '\n'.join(out)

    def _fn(self, rel, path, subs, gen_line):
        S = src(rel)
        a, sig_end, b = S.find_fn(path)
        text = S.text[a:b]
        if path in self.external:
            # body not verified in this run: keep the signature (and its contract, now an assumption reported as undecided)
            text = S.text[a:sig_end] + "{ unimplemented!() }"
        spec, attrs, edits, rws = [], [], [], []
        cur = None
        for sline in subs:
            if not sline.startswith('//@'):
                raise Undecided("bad sub-directive in %s: %s" % (path, sline))
            body = sline[3:].strip()
            if body.startswith('|'):
                cont = body[1:].strip()
                if cur is None:
                    raise Undecided("continuation without directive")
                cur[-1] = cur[-1] + "\n" + cont
                continue
            w = body.split(None, 1)
            if w[0] == 'spec':
                spec.append(w[1]); cur = spec
            elif w[0] == 'attr':
                attrs.append(w[1]); cur = attrs
            elif w[0] in ('before', 'after'):
                edits.append(w[0] + ' ' + w[1]); cur = edits
            elif w[0] == 'rewrite':
                rws.extend(w[1].split()); cur = None
            else:
                raise Undecided("bad sub-directive: " + sline)
        # rewrites
        text, n = rw_vis(text); self._use("R6", n)
        for r in rws:
            text, n = RW[r](text)
            self._use("R2" if r == "R2u" else r, n)
        if path in self.external:
            edits = []
            if not any('external_body' in x for x in attrs):
                attrs.append("#[verifier::external_body]")
        # ghost / annotation injections (never touch executable text)
        for e in edits:
            where, rest = e.split(None, 1)
            anchor, ins = rest.split(' ## ', 1)
            occ = 1
            m = re.match(r'(.*)@(-?\d+)$', anchor.strip())
            anchor = anchor.strip()
            if m:
                anchor, occ = m.group(1), int(m.group(2))
            try:
                idx = _occ(text, anchor, occ)
            except Undecided as ex:
                # the annotated place is gone: this function's obligations are undecided, the rest of the unit is still verified
                self.undecided[path] = str(ex)
                if not any('external_body' in x for x in attrs):
                    attrs.append("#[verifier::external_body]")
                continue
            if where == 'after':
                idx += len(anchor)
            text = text[:idx] + ins + "\n" + text[idx:] if where == 'before' else text[:idx] + "\n" + ins + text[idx:]
        head = []
        for at in attrs:
            head.append(at)
        if spec:
            head.append("#[verus_spec(" + spec[0] + ")]")
        res = head + text.split('\n')
        self.items.append({"kind": "fn", "file": rel, "path": path, "src_lines": [S.line_of(a), S.line_of(b)],
                           "rewrites": rws, "injections": len(edits), "external_body": any('external_body' in x for x in attrs)})
        res = '\n'.join(res).split('\n')
        self.linemap.append((gen_line, gen_line + len(res), rel, S.line_of(a) - len(head), path))
        return res

    def _type(self, kw, rel, name, gen_line, noderive=False, structural=False):
        S = src(rel)
        a, p, b = S.find_type(kw, name)
        text = S.text[p:b]     # attributes above dropped (R6)
        dropped = [x.strip() for x in S.text[a:p].split('\n') if x.strip()]
        if kw == 'struct':
            # named fields -> pub
            def pubf(m):
                return m.group(1) + 'pub ' + m.group(3)
            text = re.sub(r'(?m)^(\s+)(pub(?:\([a-z]+\))?\s+)?(\w+\s*:)', pubf, text)
            text = re.sub(r'\((\s*)(?!pub)(\w)', r'(\1pub \2', text) if re.match(r'struct\s+\w+(<[^>]*>)?\s*\(', text) else text
        # helper attributes of derive macros on fields / variants inside the copied definition are dropped as well
        text, nfa = re.subn(r'(?m)^[ \t]*#\[(?:struct_meta|parse|to_tokens)\([^\n]*\)\][ \t]*\n', '', text)
        self._use("R6", 1 + nfa)
        keep = []
        for dl in dropped:
            m = re.match(r'#\[derive\((.*)\)\]', dl)
            if m and not noderive:
                keep += [x.strip() for x in m.group(1).split(',') if x.strip() in ('Copy', 'Clone', 'Eq', 'PartialEq')]
        if structural and 'PartialEq' in keep:
            keep.append('Structural')      # vstd marker: the derived `==` is structural equality (it is: derive(PartialEq) on a field-less enum)
        res = ["#[verus_verify]"] + (["#[derive(%s)]" % ", ".join(keep)] if keep else []) + ["pub " + text]
        self.items.append({"kind": kw, "file": rel, "path": name, "src_lines": [S.line_of(p), S.line_of(b)], "dropped_attrs": dropped})
        res = '\n'.join(res).split('\n')
        self.linemap.append((gen_line, gen_line + len(res), rel, S.line_of(p), name))
        return res

    def _constseq(self, rel, path):
        S = src(rel)
        s, vstart, e, ty = S.find_const(path)
        lit = S.text[vstart:e - 1].strip()
        m = re.match(r'&\[(.*)\]$', lit, re.S)
        if not m:
            raise Undecided("R2: const %s is not a slice literal" % path)
        elems = [x.strip() for x in m.group(1).split(',') if x.strip()]
        tyname, cname = path.rsplit('::', 1)
        elems_q = [x.replace('Self::', tyname + '::') for x in elems]
        self._use("R2", 1)
        self.items.append({"kind": "const", "file": rel, "path": path, "src_lines": [S.line_of(s), S.line_of(e)], "literal": elems_q})
        fn = cname + "_r2"
        return [
            "verus! {",
            "pub open spec fn %s_%s_spec() -> Seq<%s> { seq![%s] }" % (tyname, cname, tyname, ", ".join(elems_q)),
            "impl %s {" % tyname,
            "    #[verifier::external_body]",
            "    pub fn %s() -> (r: &'static [%s]) ensures r@ == %s_%s_spec() { &[%s] }" % (fn, tyname, tyname, cname, ", ".join(elems_q)),
            "    #[verifier::external_body]",
            "    pub fn %s_rev() -> (r: &'static [%s]) ensures r@ == %s_%s_spec().reverse() { &[%s] }" % (fn, tyname, tyname, cname, ", ".join(reversed(elems_q))),
            "}",
            "}",
        ]

    def source_of_gen_line(self, line):
        for (a, b, rel, sl, label) in self.linemap:
            if a <= line < b:
                return {"file": rel, "line": sl + (line - a), "item": label}
        return None


VERIFICATION_MSGS = (
    "postcondition not satisfied", "precondition not satisfied", "invariant not satisfied",
    "assertion failed", "possible arithmetic", "unreachable", "panic", "index out of bounds", "possible division",
    "recommendation not met", "fails to satisfy", "decreases not satisfied", "might not", "cannot show", "loop invariant",
)


def run_unit(name, canary=False, external=(), _depth=0):
    """Render + verify one unit. Returns dict with functions {name: success}, failures [...], times.
    A function Verus cannot process (dialect / lost anchor) is retried as external_body and reported as undecided."""
    u = Unit(name, external)
    text = u.render()
    d = os.path.join(BUILD, "g")
    os.makedirs(d, exist_ok=True)
    path = os.path.join(d, name + ".rs")
    open(path, "w").write(text)
    t0 = time.time()
    p = sh(["verus", path, "--output-json", "--time", "--error-format=json", "--num-threads", "8"], cwd=d, env=env_with(), timeout=900)
    wall = time.time() - t0
    try:
        summary = json.loads(p.stdout)
    except Exception:
        raise Undecided("verus produced no JSON for unit %s: %s" % (name, (p.stderr or p.stdout)[-2000:]))
    vr = summary.get("verification-results", {})
    diags = []
    for l in p.stderr.split('\n'):
        l = l.strip()
        if l.startswith('{'):
            try:
                dj = json.loads(l)
            except Exception:
                continue
            if dj.get("level") == "error" and dj.get("spans"):
                diags.append(dj)
    funcs = {}
    smt = summary.get("times-ms", {}).get("smt", {})
    for mod in smt.get("smt-run-module-times", []):
        for fb in mod.get("function-breakdown", []):
            fname = fb["function"].split("::", 1)[1] if "::" in fb["function"] else fb["function"]
            funcs[fname] = funcs.get(fname, True) and bool(fb["success"])
    failures, other_errors = [], []
    for dj in diags:
        msg = dj["message"]
        prim = [s for s in dj["spans"] if s.get("is_primary")] or dj["spans"]
        gl = prim[0]["line_start"]
        srcs = [u.source_of_gen_line(s["line_start"]) for s in dj["spans"]]
        srcs = [s for s in srcs if s]
        rec = {"message": msg, "gen_line": gl, "label": prim[0].get("label"), "text": (prim[0].get("text") or [{}])[0].get("text", "").strip(),
               "source": srcs, "rendered": dj.get("rendered", "")[:1500]}
        if any(k in msg for k in VERIFICATION_MSGS):
            failures.append(rec)
        else:
            other_errors.append(rec)
    if (vr.get("encountered-vir-error") or other_errors) and _depth < 3:
        # blame the copied functions that contain the offending lines and retry with their bodies left unverified
        blamed = set()
        for e in other_errors:
            for sp in e["source"]:
                if sp and sp["item"] in [i["path"] for i in u.items if i["kind"] == "fn"] and sp["item"] not in u.external:
                    blamed.add(sp["item"])
        if blamed:
            r = run_unit(name, canary, set(external) | blamed, _depth + 1)
            for b in blamed:
                r["undecided_functions"][b] = "Verus cannot process the current body: " + "; ".join(e["message"] for e in other_errors if any(sp and sp["item"] == b for sp in e["source"]))[:300]
            return r
    if vr.get("encountered-vir-error") or (other_errors and not failures) or (not vr.get("success") and not failures):
        raise Undecided("verus could not process unit %s (dialect/tool limit, not a verdict): %s" % (
            name, json.dumps([e["message"] + " @gen " + str(e["gen_line"]) + " " + e["text"] for e in other_errors][:5]) or p.stderr[-1500:]))
    return {"unit": name, "path": path, "verified": vr.get("verified", 0), "errors": vr.get("errors", 0),
            "functions": funcs, "failures": failures, "wall_s": round(wall, 2),
            "smt_ms": smt.get("smt-run", 0), "items": u.items, "rewrites": u.rewrites_used,
            "verus_version": summary.get("verus", {}).get("version"), "text": text,
            "undecided_functions": dict(u.undecided, **{f: "body not verified in this run" for f in u.external if f not in u.undecided})}


ASSUMPTION_PATTERNS = [r'\bassume\s*\(', r'\badmit\s*\(', r'external_body', r'assume_specification', r'\buninterp\b', r'#\[verifier::external\]', r'external_type_specification']


def scan_assumptions(text):
    out = {}
    for pat in ASSUMPTION_PATTERNS:
        n = len(re.findall(pat, text))
        if n:
            out[pat] = n
    return out

"""Program family for the comparison traits: type definitions with helper attributes, reference functions written from the
documented rule (refmodel), contract wrappers and Kani harnesses. Used by C01, C02, C06 and others."""
import random
import refmodel as R
from elayer import Prog

FIELD_TYPES = ["u8", "i16", "bool", "Option<u8>", "W<u8>"]
PO_TYPE = "P"           # PartialEq + PartialOrd only
NAMES = "abcd"
VNAMES = "ABCD"


class Field:
    def __init__(self, name, ty, combo, idk=()):
        self.name, self.ty, self.combo = name, ty, combo   # name None => tuple field
        self.idk = frozenset(idk)       # attributes whose key is written as the identity `key = $` (still a key: it takes part in the precedence)


class Variant:
    def __init__(self, name, kind, fields):
        self.name, self.kind, self.fields = name, kind, fields   # kind: unit|tuple|named


class TypeDef:
    def __init__(self, is_enum, variants, derived, entry="attr", generic=False, keys="distinct", tname="X", hostile=None):
        self.is_enum, self.variants, self.derived, self.entry = is_enum, variants, derived, entry
        self.generic = generic      # field types written with T, instantiated at u8
        self.keys = keys
        self.tname = tname
        # hostile: {"type": name, "param": name}: the item lives in `mod def` under a prelude-shadowing glob import and is
        # re-exported as X; variant / field names are already the hostile ones
        self.hostile = hostile
        # explicit discriminants (enums): per variant None | int; the order of values of different variants is the declaration order whatever they say
        self.discr = None

    def describe(self):
        vs = []
        for v in self.variants:
            vs.append("%s%s[%s]" % (v.name, {"unit": "", "tuple": "()", "named": "{}"}[v.kind],
                                    ", ".join("%s:%s%s" % (f.ty, R.combo_name(f.combo), ("{key=$ on %s}" % ",".join(sorted(f.idk))) if f.idk else "") for f in v.fields)))
        return "%s %s derive=%s entry=%s %s%s" % ("enum" if self.is_enum else "struct", " | ".join(vs), "+".join(self.derived), self.entry, "generic" if self.generic else "",
                                                  (" discriminants=%s" % ",".join("_" if d is None else str(d) for d in self.discr)) if self.discr else "")


def key_name(td, a, f=None):
    if f is not None and a in f.idk:
        return "k_id"
    return ("k_" + a) if td.keys == "distinct" else "ck"


def by_name(td, a):
    if td.keys == "distinct":
        return "by_" + a
    if a == "partial_ord" and getattr(td, "nonreflexive", False):
        return "ck_pcmp_nr"         # a NaN-like element: not even comparable with itself
    if a == "partial_ord" and "Ord" not in td.derived:
        return "ck_pcmp_p"          # incomparable pairs exist: `==` derived from it must be false there
    return {"ord": "ck_cmp", "partial_ord": "ck_pcmp", "eq": "ck_eq", "partial_eq": "ck_eq", "hash": "ck_hash"}[a]


def field_attrs(td, f):
    owned = R.parsed_attrs(td.derived)
    t = R.attr_text(f.combo, key_expr=lambda a: "$" if a in f.idk else "%s(&$)" % key_name(td, a), by_expr=lambda a: by_name(td, a), only=owned)
    if t and not td.generic:
        # bound(..) arguments only concern the where-clause: on a non-generic item they must not change what is compared (deterministic choice)
        import zlib
        h = zlib.crc32((t + str(f.name) + f.ty).encode())
        if h % 6 == 0:
            t = t.replace(")]", ", bound(..))]" if h % 12 == 0 else ", bound())]", 1)
    return t


def ty_decl(td, ty):
    """field type as written in the definition (generic programs write T for u8)"""
    if td.generic:
        return ty.replace("u8", (td.hostile or {}).get("param", "T"))
    return ty


def typedef_text(td, extra_derives=("Debug", "Clone")):
    pn = (td.hostile or {}).get("param", "T")
    g = ("<%s: Kb>" % pn) if td.generic else ""
    real_name = (td.hostile or {}).get("type", td.tname)
    lst = ", ".join(td.derived)
    std = ", ".join(extra_derives)
    if td.entry == "attr":
        head = "#[derive_ex::derive_ex(%s)]\n#[derive(%s)]\n" % (lst, std)
    elif td.entry.startswith("attr_split") and len(td.derived) > 1:
        # the list split over stacked attributes (first trait alone, the rest in a sibling written bare / with the crate path / with `::`):
        # one request, the helper attributes are shared
        sib = {"attr_split": "derive_ex::derive_ex", "attr_split_colon": "::derive_ex::derive_ex", "attr_split_last": "derive_ex::derive_ex", "attr_split_bare": "derive_ex"}[td.entry]
        a, b = (td.derived[:1], td.derived[1:]) if td.entry != "attr_split_last" else (td.derived[:-1], td.derived[-1:])
        head = "#[derive_ex::derive_ex(%s)]\n#[%s(%s)]\n#[derive(%s)]\n" % (", ".join(a), sib, ", ".join(b), std)
    elif td.entry.startswith("attr_split"):
        head = "#[derive_ex::derive_ex(%s)]\n#[derive(%s)]\n" % (lst, std)
    else:
        head = "#[derive(derive_ex::Ex, %s)]\n#[derive_ex(%s)]\n" % (std, lst)

    def fields_text(v):
        if v.kind == "unit":
            return ""
        fs = []
        for f in v.fields:
            at = field_attrs(td, f)
            vis = "" if td.is_enum else "pub "
            if v.kind == "named":
                fs.append("%s %s%s: %s" % (at, vis, f.name, ty_decl(td, f.ty)))
            else:
                fs.append("%s %s%s" % (at, vis, ty_decl(td, f.ty)))
        if v.kind == "named":
            return " { " + ", ".join(fs) + " }"
        return "(" + ", ".join(fs) + ")"

    if td.is_enum:
        dis = td.discr or [None] * len(td.variants)
        body = ",\n    ".join(v.name + fields_text(v) + ("" if d is None else " = %d" % d) for v, d in zip(td.variants, dis))
        return wrap(td, "%s%spub enum %s%s {\n    %s\n}\n" % (head, "#[repr(u8)]\n" if td.discr else "", real_name, g, body))
    v = td.variants[0]
    ft = fields_text(v)
    if v.kind == "named":
        return wrap(td, "%spub struct %s%s%s\n" % (head, real_name, g, ft))
    return wrap(td, "%spub struct %s%s%s;\n" % (head, real_name, g, ft))


SHADOW = ("pub mod shadow { " + " ".join("pub struct %s;" % n for n in ["Option", "Some", "None", "Eq", "Fn", "FnOnce", "Clone", "Ordering", "Result", "Default", "Ok", "Err", "PartialEq", "Ord",
                                                                        "PartialOrd", "Hash", "Hasher", "Debug", "Sized", "Copy", "Box", "Vec", "String", "Into", "From", "Iterator", "Send", "Sync", "Drop",
                                                                        "Equal", "Less", "Greater", "Formatter", "PhantomData", "Deref", "Add", "bool", "usize", "isize", "u64"]) +
          " pub mod core {} pub mod std {} pub mod alloc {} pub fn drop() {} pub fn unreachable() {} }\n")


def wrap(td, text):
    if not td.hostile:
        # the derive_ex item lives in a module of its own where the by-value decoy trait is in scope (generated method-syntax calls would land there)
        return "pub mod def {\n#[allow(unused_imports)] use super::*;\n#[allow(unused_imports)] use crate::support::hijack::HijackAll as _;\n%s}\npub use def::%s;\n" % (text, td.tname)
    body = "".join(l + " " for l in text.split("\n") if l.strip())
    # one paragraph: the derive_ex item under a prelude-shadowing glob import; key/by functions and field types come from support
    return ("pub mod def { #[allow(unused_imports)] use super::shadow::*; #[allow(unused_imports)] use crate::support::hijack::HijackAll as _; use crate::support::{%s}; #[allow(unused_macros)] macro_rules! unreachable { (never) => {} }\n%s\n}\n\n%spub use def::%s as %s;\n" % (
        ", ".join(["P", "W", "Kb"] + ["k_" + a for a in R.OPS] + ["by_" + a for a in R.OPS] + ["ck", "ck_cmp", "ck_pcmp", "ck_pcmp_p", "ck_pcmp_nr", "ck_eq", "ck_hash"]), body, SHADOW, td.hostile.get("type", td.tname), td.tname))



def inst(td):
    return td.tname + ("<u8>" if td.generic else "")


def binders(v, prefix):
    """pattern fragment binding the fields of variant v to <prefix>_<name>"""
    if v.kind == "unit":
        return ""
    if v.kind == "named":
        return " { " + ", ".join("%s: %s_%d" % (f.name, prefix, i) for i, f in enumerate(v.fields)) + " }"
    return "(" + ", ".join("%s_%d" % (prefix, i) for i, f in enumerate(v.fields)) + ")"


def bname(v, f, i, prefix):
    return "%s_%d" % (prefix, i)


def mk_text(td):
    T = inst(td)
    def ctor(v):
        path = ("%s::%s" % (td.tname, v.name)) if td.is_enum else td.tname
        if v.kind == "unit":
            return path
        if v.kind == "named":
            return path + " { " + ", ".join("%s: <%s as Mk>::mk(s)" % (f.name, f.ty) for f in v.fields) + " }"
        return path + "(" + ", ".join("<%s as Mk>::mk(s)" % f.ty for f in v.fields) + ")"
    if td.is_enum:
        n = len(td.variants)
        if n == 0:
            return "impl Mk for %s { fn mk<S: Src>(s: &mut S) -> Self { loop {} } }\n" % T
        arms = "\n".join("            %d => %s," % (i, ctor(v)) for i, v in enumerate(td.variants[:-1]))
        return "impl Mk for %s {\n    fn mk<S: Src>(s: &mut S) -> Self {\n        match s.u8() %% %d {\n%s\n            _ => %s,\n        }\n    }\n}\n" % (
            T, n, arms, ctor(td.variants[-1]))
    return "impl Mk for %s { fn mk<S: Src>(s: &mut S) -> Self { %s } }\n" % (T, ctor(td.variants[0]))


def field_cmp_expr(td, trait, c, a, b, f=None):
    """reference comparison of one field for `trait` (documented precedence, reverse), a/b are `&FieldTy` expressions"""
    sk = R.sel_kind(c, trait)
    if trait == "PartialEq":
        if sk is None:
            return "(*%s == *%s)" % (a, b)
        at, kind = sk
        if kind == "key":
            return "(%s(%s) == %s(%s))" % (key_name(td, at, f), a, key_name(td, at, f), b)
        f = by_name(td, at)
        if at in ("partial_eq", "eq"):
            return "%s(%s, %s)" % (f, a, b)
        if at == "partial_ord":
            return "(%s(%s, %s) == Some(Ordering::Equal))" % (f, a, b)
        return "(%s(%s, %s) == Ordering::Equal)" % (f, a, b)
    if trait == "PartialOrd":
        if sk is None:
            e = "PartialOrd::partial_cmp(%s, %s)" % (a, b)
        else:
            at, kind = sk
            if kind == "key":
                e = "PartialOrd::partial_cmp(&%s(%s), &%s(%s))" % (key_name(td, at, f), a, key_name(td, at, f), b)
            elif at == "partial_ord":
                e = "%s(%s, %s)" % (by_name(td, at), a, b)
            else:
                e = "Some(%s(%s, %s))" % (by_name(td, at), a, b)
        if R.rev(c, trait):
            e = "rv(%s)" % e
        return e
    if trait == "Ord":
        if sk is None:
            e = "Ord::cmp(%s, %s)" % (a, b)
        else:
            at, kind = sk
            if kind == "key":
                e = "Ord::cmp(&%s(%s), &%s(%s))" % (key_name(td, at, f), a, key_name(td, at, f), b)
            else:
                e = "%s(%s, %s)" % (by_name(td, at), a, b)
        if R.rev(c, trait):
            e = "(%s).reverse()" % e
        return e
    raise ValueError(trait)


def field_feed_stmt(td, c, a, f=None):
    sk = R.sel_kind(c, "Hash")
    if sk is None:
        return "Hash::hash(%s, h);" % a
    at, kind = sk
    if kind == "key":
        return "Hash::hash(&%s(%s), h);" % (key_name(td, at, f), a)
    return "%s(%s, h);" % (by_name(td, at), a)


RET = {"PartialEq": "bool", "PartialOrd": "Option<Ordering>", "Ord": "Ordering"}
EQUAL = {"PartialEq": "true", "PartialOrd": "Some(Ordering::Equal)", "Ord": "Ordering::Equal"}
FN = {"PartialEq": "ref_eq", "PartialOrd": "ref_partial_cmp", "Ord": "ref_cmp"}


def ref_fn(td, trait):
    """reference rule of C01: different variants by declaration position; else non-ignored fields in order, first non-equal decides"""
    T = inst(td)
    eqv = EQUAL[trait]
    def body(v):
        out = []
        for i, f in enumerate(v.fields):
            if R.ign(f.combo, trait):
                continue
            e = field_cmp_expr(td, trait, f.combo, bname(v, f, i, "x"), bname(v, f, i, "y"), f)
            if trait == "PartialEq":
                out.append("if !(%s) { return false; }" % e)
            else:
                out.append("let o = %s; if o != %s { return o; }" % (e, eqv))
        out.append(eqv)
        return " ".join(out)
    if td.is_enum:
        arms = []
        for v in td.variants:
            arms.append("        (%s::%s%s, %s::%s%s) => { %s }" % (td.tname, v.name, binders(v, "x"), td.tname, v.name, binders(v, "y"), body(v)))
        other = {"PartialEq": "false", "PartialOrd": "Some(ref_idx(x).cmp(&ref_idx(y)))", "Ord": "ref_idx(x).cmp(&ref_idx(y))"}[trait]
        if len(td.variants) != 1:
            arms.append("        _ => %s," % other)
        if not td.variants:
            return "pub fn %s(x: &%s, y: &%s) -> %s { match *x {} }\n" % (FN[trait], T, T, RET[trait])
        return "pub fn %s(x: &%s, y: &%s) -> %s {\n    match (x, y) {\n%s\n    }\n}\n" % (FN[trait], T, T, RET[trait], "\n".join(arms))
    v = td.variants[0]
    return "pub fn %s(x: &%s, y: &%s) -> %s {\n    let %s%s = x; let %s%s = y;\n    %s\n}\n" % (
        FN[trait], T, T, RET[trait], td.tname, binders(v, "x") or "", td.tname, binders(v, "y") or "", body(v))


def ref_idx(td):
    T = inst(td)
    if not td.is_enum:
        return ""
    if not td.variants:
        return "pub fn ref_idx(x: &%s) -> usize { match *x {} }\n" % T
    arms = " ".join("%s::%s%s => %d," % (td.tname, v.name, {"unit": "", "tuple": "(..)", "named": " { .. }"}[v.kind], i) for i, v in enumerate(td.variants))
    return "pub fn ref_idx(x: &%s) -> usize { match x { %s } }\n" % (T, arms)


def ref_feed(td):
    """reference feed of C06: effective input of every non-ignored field of the value's variant, in order, nothing else"""
    T = inst(td)
    def body(v):
        out = []
        for i, f in enumerate(v.fields):
            if R.ign(f.combo, "Hash"):
                continue
            out.append(field_feed_stmt(td, f.combo, bname(v, f, i, "x"), f))
        return " ".join(out)
    if td.is_enum:
        if not td.variants:
            return "pub fn ref_feed(x: &%s, h: &mut Rec) { match *x {} }\n" % T
        arms = "\n".join("        %s::%s%s => { %s }" % (td.tname, v.name, binders(v, "x"), body(v)) for v in td.variants)
        return "pub fn ref_feed(x: &%s, h: &mut Rec) {\n    match x {\n%s\n    }\n}\n" % (T, arms)
    v = td.variants[0]
    return "pub fn ref_feed(x: &%s, h: &mut Rec) {\n    let %s%s = x;\n    %s\n}\n" % (T, td.tname, binders(v, "x") or "", body(v))


WRAP = {
    "PartialEq": ("eq", "bool", "PartialEq::eq(x, y)", "ref_eq(x, y)"),
    "PartialOrd": ("partial_cmp", "Option<Ordering>", "PartialOrd::partial_cmp(x, y)", "ref_partial_cmp(x, y)"),
    "Ord": ("cmp", "Ordering", "Ord::cmp(x, y)", "ref_cmp(x, y)"),
}


def manual_supertraits(td):
    """traits required as supertraits of the derived ones but not derived: hand-written from the reference functions"""
    T = inst(td)
    need = set()
    for t in td.derived:
        for u in R.SUPER.get(t, []):
            need.add(u)
            for w in R.SUPER.get(u, []):
                need.add(w)
    need -= set(td.derived)
    out, refs = [], []
    g = "impl"
    for t in ["PartialEq", "Eq", "PartialOrd"]:
        if t not in need:
            continue
        if t == "PartialEq":
            out.append("impl PartialEq for %s { fn eq(&self, o: &Self) -> bool { ref_eq(self, o) } }" % T)
            refs.append("PartialEq")
        elif t == "Eq":
            out.append("impl Eq for %s {}" % T)
        elif t == "PartialOrd":
            out.append("impl PartialOrd for %s { fn partial_cmp(&self, o: &Self) -> Option<Ordering> { ref_partial_cmp(self, o) } }" % T)
            refs.append("PartialOrd")
    return "\n".join(out) + "\n", refs


def build_prog(name, td, want=("PartialEq", "PartialOrd", "Ord", "Hash"), laws=False):
    """Program module text + harness names."""
    T = inst(td)
    parts = [typedef_text(td), mk_text(td), ref_idx(td)]
    # decoys on the derived type itself: generated code that refers to another derived method (`Self::..`, `self.cmp(..)`) must name the trait
    parts.append("#[allow(dead_code)]\nimpl%s %s { pub fn eq<R_>(&self, _o: R_) -> bool { false } pub fn ne<R_>(&self, _o: R_) -> bool { false } pub fn partial_cmp<R_>(&self, _o: R_) -> Option<Ordering> { None } "
                 "pub fn cmp<R_>(&self, _o: R_) -> Ordering { Ordering::Greater } pub fn hash<R_>(&self, _h: R_) {} }\n" % (("<T_: Kb>" if td.generic else ""), td.tname + ("<T_>" if td.generic else "")))
    man, man_refs = manual_supertraits(td)
    refs_needed = set(man_refs)
    harnesses, wrappers, proofs, replays = [], [], [], []
    for t in ("PartialEq", "PartialOrd", "Ord"):
        if t in td.derived and t in want:
            refs_needed.add(t)
            h, ret, call, ref = WRAP[t]
            wrappers.append("#[cfg_attr(kani, kani::ensures(|r: &%s| *r == %s))]\npub fn w_%s(x: &%s, y: &%s) -> %s { %s }" % (ret, ref, h, T, T, ret, call))
            if t == "PartialOrd":
                # Kani's contract instrumentation of `Option::map(_, Ordering::reverse)` (emitted for `reverse`) costs 5-150 s per
                # harness; the same postcondition asserted in a loop-free harness over full-domain inputs is a complete proof
                proofs.append("    #[kani::proof]\n    pub fn %s() { let mut s = KaniSrc; let x = <%s as Mk>::mk(&mut s); let y = <%s as Mk>::mk(&mut s); let r = w_%s(&x, &y); assert!(r == %s, \"postcondition of w_%s\"); kani::cover!(true); }" % (h, T, T, h, ref.replace("(x, y)", "(&x, &y)"), h))
            else:
                proofs.append("    #[kani::proof_for_contract(w_%s)]\n    pub fn %s() { let mut s = KaniSrc; let x = <%s as Mk>::mk(&mut s); let y = <%s as Mk>::mk(&mut s); let _r = w_%s(&x, &y); kani::cover!(true); }" % (h, h, T, T, h))
            replays.append('        "%s" => { let x = <%s as Mk>::mk(&mut s); let y = <%s as Mk>::mk(&mut s); let d = w_%s(&x, &y); let r = %s; (d == r, format!("x={:?} y={:?} derived %s = {:?}, documented rule = {:?}", x, y, d, r)) }' % (h, T, T, h, ref.replace("(x, y)", "(&x, &y)"), h))
            harnesses.append(h)
            if t == "PartialEq":
                # both operands are the same object: an identity shortcut would differ from the rule on non-reflexive field types
                proofs.append("    #[kani::proof]\n    pub fn eq_same() { let mut s = KaniSrc; let x = <%s as Mk>::mk(&mut s); let r = w_eq(&x, &x); assert!(r == ref_eq(&x, &x), \"postcondition of w_eq on aliased operands\"); kani::cover!(true); }" % T)
                replays.append('        "eq_same" => { let x = <%s as Mk>::mk(&mut s); let d = w_eq(&x, &x); let r = ref_eq(&x, &x); (d == r, format!("x={:?}: derived x == x is {:?}, documented rule gives {:?}", x, d, r)) }' % T)
                harnesses.append("eq_same")
    if "Hash" in td.derived and "Hash" in want:
        parts.append(ref_feed(td))
        wrappers.append("pub fn ref_rec(x: &%s) -> Rec { let mut h = Rec::new(); ref_feed(x, &mut h); h }" % T)
        wrappers.append("#[cfg_attr(kani, kani::ensures(|r: &Rec| *r == ref_rec(x)))]\npub fn w_feed(x: &%s) -> Rec { let mut h = Rec::new(); Hash::hash(x, &mut h); h }" % T)
        # asserted in a loop-free harness: contract instrumentation of the recording Hasher's byte loops costs minutes per harness
        proofs.append("    #[kani::proof]\n    pub fn feed() { let mut s = KaniSrc; let x = <%s as Mk>::mk(&mut s); let r = w_feed(&x); assert!(r == ref_rec(&x), \"postcondition of w_feed\"); kani::cover!(true); }" % T)
        replays.append('        "feed" => { let x = <%s as Mk>::mk(&mut s); let d = w_feed(&x); let r = ref_rec(&x); (d == r, format!("x={:?} derived feed = {:?} (len {}), documented feed = {:?} (len {})", x, &d.buf[..d.len.min(32)], d.len, &r.buf[..r.len.min(32)], r.len)) }' % T)
        harnesses.append("feed")
    if laws:
        lw, lp, lr, lh = law_harnesses(td)
        wrappers += lw; proofs += lp; replays += lr; harnesses += lh
        for t in ("PartialEq", "PartialOrd", "Ord"):
            if t in td.derived:
                pass
    for t in ("PartialEq", "PartialOrd", "Ord"):
        if t in refs_needed:
            parts.append(ref_fn(td, t))
    parts.append(man)
    parts.append("\n".join(wrappers) + "\n")
    parts.append("#[cfg(kani)]\npub mod proofs {\n    use super::*;\n%s\n}\n" % "\n".join(proofs))
    parts.append("pub fn replay(h: &str, b: &[u8]) -> (bool, String) {\n    let mut s = VecSrc { v: b.to_vec(), i: 0 };\n    match h {\n%s\n        _ => (true, String::from(\"unknown harness\")),\n    }\n}\n" % "\n".join(replays))
    return Prog(name, "\n".join(parts), harnesses, {"describe": td.describe()})


def law_harnesses(td):
    """C02: the derived impls agree with one another on every pair (triple) of values. No reference involved."""
    T = inst(td)
    D = td.derived
    w, p, r, h = [], [], [], []
    def add(name, nvals, cond, text):
        args = ", ".join("%s: &%s" % (v, T) for v in "xyz"[:nvals])
        w.append("#[cfg_attr(kani, kani::ensures(|r: &bool| *r))]\npub fn lw_%s(%s) -> bool { %s }" % (name, args, cond))
        mk = " ".join("let %s = <%s as Mk>::mk(&mut s);" % (v, T) for v in "xyz"[:nvals])
        call = ", ".join("&" + v for v in "xyz"[:nvals])
        if name in ("eq_hash", "eq_pcmp", "pcmp_cmp"):   # partial_cmp (Option::map) and the recording Hasher are too costly under contract instrumentation
            p.append("    #[kani::proof]\n    pub fn law_%s() { let mut s = KaniSrc; %s let r = lw_%s(%s); assert!(r, \"postcondition of lw_%s\"); kani::cover!(true); }" % (name, mk, name, call, name))
        else:
          p.append("    #[kani::proof_for_contract(lw_%s)]\n    pub fn law_%s() { let mut s = KaniSrc; %s let _r = lw_%s(%s); kani::cover!(true); }" % (name, name, mk, name, call))
        fmtv = " ".join("%s={:?}" % v for v in "xyz"[:nvals])
        r.append('        "law_%s" => { %s let ok = lw_%s(%s); (ok, format!("%s law `%s` holds = {:?}", %s, ok)) }' % (name, mk, name, call, fmtv, text, ", ".join("xyz"[:nvals])))
        h.append("law_" + name)
    if "PartialEq" in D and "PartialOrd" in D:
        # the same law on ONE object (aliased operands): an identity shortcut in `==` must not disagree with partial_cmp
        add("eq_pcmp_same", 1, "(x == x) == (PartialOrd::partial_cmp(x, x) == Some(Ordering::Equal))", "x == x iff partial_cmp(x, x) == Some(Equal)")
        add("eq_pcmp", 2, "(x == y) == (PartialOrd::partial_cmp(x, y) == Some(Ordering::Equal))", "a == b iff partial_cmp == Some(Equal)")
    if "PartialEq" in D and "Ord" in D:
        add("eq_cmp", 2, "(x == y) == (Ord::cmp(x, y) == Ordering::Equal)", "a == b iff cmp == Equal")
    if "PartialOrd" in D and "Ord" in D:
        add("pcmp_cmp", 2, "PartialOrd::partial_cmp(x, y) == Some(Ord::cmp(x, y))", "partial_cmp == Some(cmp)")
    if "PartialEq" in D and "Hash" in D:
        add("eq_hash", 2, "!(x == y) || { let mut h1 = Rec::new(); let mut h2 = Rec::new(); Hash::hash(x, &mut h1); Hash::hash(y, &mut h2); h1 == h2 }", "a == b implies equal feeds")
    if "Eq" in D:
        add("eq_refl", 1, "x == x", "reflexive")
    if "PartialEq" in D:
        add("eq_sym", 2, "(x == y) == (y == x)", "symmetric")
        add("eq_trans", 3, "!(x == y && y == z) || x == z", "transitive")
    if "Ord" in D:
        add("cmp_swap", 2, "Ord::cmp(x, y) == Ord::cmp(y, x).reverse()", "cmp flips under swap")
        add("cmp_trans", 3, "!(Ord::cmp(x, y) != Ordering::Greater && Ord::cmp(y, z) != Ordering::Greater) || Ord::cmp(x, z) != Ordering::Greater", "cmp transitive (<=)")
    return w, p, r, h


# ---------------------------------------------------------------- random / systematic program generation
def accepted_combos(derived, pool=None):
    owned = R.parsed_attrs(derived)
    out = []
    for c in (pool or R.all_combos()):
        if any(c[a] for a in R.OPS if a not in owned):
            continue
        if all(R.accept(c, t) for t in derived if t in R.AFFECTS):
            out.append(c)
    return out


_acc_cache = {}


def accepted_for(derived):
    k = tuple(derived)
    if k not in _acc_cache:
        _acc_cache[k] = accepted_combos(list(derived))
    return _acc_cache[k]


def type_ok_for(ty, derived, combo):
    """P is only PartialEq+PartialOrd: usable where no Eq/Ord/Hash is required from the field itself"""
    if ty != PO_TYPE:
        return True
    for t in derived:
        if t in ("Eq", "Ord", "Hash") and not R.ign(combo, t) and R.sel(combo, t) is None:
            return False
    return True


def random_typedef(rng, derived, entry=None, keys="distinct", max_fields=4, allow_generic=True, allow_p=True, boring_p=0.35, fnames=NAMES, vnames=VNAMES, tymap=None, generic_p=0.2):
    acc = accepted_for(derived)
    interesting = [c for c in acc if any(c[a] for a in R.OPS)]
    is_enum = rng.random() < 0.5
    closed = all(u in derived for t in derived for u in R.SUPER.get(t, []))
    generic = allow_generic and closed and rng.random() < generic_p
    def mkfields(kind):
        n = 0 if kind == "unit" else rng.randint(1, max_fields) if rng.random() < 0.9 else 0
        fs = []
        for i in range(n):
            c = rng.choice(acc) if rng.random() < boring_p or not interesting else rng.choice(interesting)
            tys = list(FIELD_TYPES) + ([PO_TYPE] if allow_p else [])
            ty = rng.choice(tys)
            if generic and rng.random() < 0.6:
                ty = rng.choice(["u8", "Option<u8>", "W<u8>"])
            if not type_ok_for(ty, derived, c):
                ty = "u8"
            if tymap:
                ty = tymap(ty)
            idk = ()
            if keys == "distinct" and not generic and ty != PO_TYPE and tymap is None:
                # identity keys `key = $`: the field itself as key; only on field types that implement every derived trait
                idk = [a for a in R.OPS if any(x == "key" for x in c[a]) and rng.random() < 0.2]
            fs.append(Field(fnames[i] if kind == "named" else None, ty, c, idk))
        return fs
    if is_enum:
        nv = rng.randint(1, 4)
        vs = []
        for i in range(nv):
            kind = rng.choice(["unit", "tuple", "named"])
            vs.append(Variant(vnames[i], kind, mkfields(kind)))
    else:
        kind = rng.choice(["unit", "tuple", "named", "tuple", "named"])
        vs = [Variant("X", kind, mkfields(kind))]
    if generic and not any("u8" in f.ty for v in vs for f in v.fields):
        generic = False
    td = TypeDef(is_enum, vs, list(derived), entry or rng.choice(["attr", "derive", "attr", "derive", "attr", "derive", "attr_split", "attr_split_colon", "attr_split_last", "attr_split_bare"]), generic, keys)
    if is_enum and len(vs) >= 2 and rng.random() < 0.35:
        # explicit discriminants, some or all, not ascending, values colliding with the positions of other variants
        for _ in range(20):
            dis = [rng.choice([None, rng.randint(0, 5), rng.randint(0, 5), len(vs) - 1 - i]) for i in range(len(vs))]
            vals, cur = [], -1
            for d in dis:
                cur = d if d is not None else cur + 1
                vals.append(cur)
            if len(set(vals)) == len(vals) and any(d is not None for d in dis) and vals != sorted(vals) or (len(set(vals)) == len(vals) and any(d is not None for d in dis) and vals != list(range(len(vals)))):
                td.discr = dis
                break
    return td


def single_field_typedef(combo, derived, placement="named", entry="attr", keys="consistent", ty="u8"):
    f = Field("a" if placement in ("named", "variant") else None, ty, combo)
    if placement == "named":
        return TypeDef(False, [Variant("X", "named", [f])], list(derived), entry, False, keys)
    if placement == "tuple":
        return TypeDef(False, [Variant("X", "tuple", [f])], list(derived), entry, False, keys)
    return TypeDef(True, [Variant("A", "unit", []), Variant("B", "named", [f]), Variant("C", "tuple", [Field(None, "u8", {a: () for a in R.OPS})])], list(derived), entry, False, keys)

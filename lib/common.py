"""Shared machinery: paths, expander client, evidence writer, violation / known-finding reporting."""
import json, os, subprocess, sys, time, shutil, hashlib, re

VERIF = os.path.dirname(os.path.dirname(os.path.abspath(__file__)))
REPO = os.environ.get("VERIF_REPO", "/repo")
BUILD = os.path.join(VERIF, "build")
EVIDENCE = os.environ.get("VERIF_EVIDENCE_DIR") or (os.path.join(VERIF, "evidence") if REPO == "/repo" else os.path.join(BUILD, "evidence_scratch"))
REPLAYS = os.environ.get("VERIF_REPLAYS_DIR") or (os.path.join(VERIF, "replays") if REPO == "/repo" else os.path.join(BUILD, "replays_scratch"))
SRC = os.path.join(REPO, "derive-ex", "src")
GUARD = "frozenlib_derive_ex_verif"
NCPU = os.cpu_count() or 4

OFFLINE_ENV = {"CARGO_NET_OFFLINE": "true"}


class Undecided(Exception):
    """The check could not decide (tool limit, lost anchor, build failure of the harness itself).
    Exit code 2; never reported as a violation."""


def env_with(**kw):
    e = dict(os.environ)
    e.update(OFFLINE_ENV)
    e.update({k: v for k, v in kw.items() if v is not None})
    return e


def sh(cmd, cwd=None, env=None, timeout=None, check=False, input=None):
    t0 = time.time()
    p = subprocess.run(cmd, cwd=cwd, env=env, timeout=timeout, input=input,
                       stdout=subprocess.PIPE, stderr=subprocess.PIPE, text=True,
                       shell=isinstance(cmd, str))
    p.wall = time.time() - t0
    if check and p.returncode != 0:
        raise Undecided("command failed: %s\n%s\n%s" % (cmd, p.stdout[-3000:], p.stderr[-3000:]))
    return p


# ---------------------------------------------------------------- expander (layer B, and program triage)
EXPANDER_DIR = os.path.join(VERIF, "expander")
EXPANDER_TARGET = os.path.join(BUILD, "expander")
EXPANDER_BIN = os.path.join(EXPANDER_TARGET, "release", "expand")


def build_expander():
    """Rebuild the in-process expander from /repo's current working tree (cargo decides what is stale)."""
    os.makedirs(BUILD, exist_ok=True)
    lock = os.path.join(REPO, "Cargo.lock")
    if os.path.exists(lock):
        shutil.copy(lock, os.path.join(EXPANDER_DIR, "Cargo.lock"))
    # the [lib] path is absolute; honour VERIF_REPO by rewriting the manifest into the build dir
    man_dir = EXPANDER_DIR
    if REPO != "/repo":
        man_dir = os.path.join(BUILD, "expander_manifest")
        os.makedirs(os.path.join(man_dir, "src"), exist_ok=True)
        s = open(os.path.join(EXPANDER_DIR, "Cargo.toml")).read().replace("/repo/", REPO + "/")
        open(os.path.join(man_dir, "Cargo.toml"), "w").write(s)
        shutil.copy(os.path.join(EXPANDER_DIR, "src", "main.rs"), os.path.join(man_dir, "src", "main.rs"))
        if os.path.exists(lock):
            shutil.copy(lock, os.path.join(man_dir, "Cargo.lock"))
    p = sh(["cargo", "build", "--offline", "--release", "--quiet"], cwd=man_dir,
           env=env_with(RUSTFLAGS="--cfg " + GUARD, CARGO_TARGET_DIR=EXPANDER_TARGET))
    if p.returncode != 0:
        raise Undecided("expander build failed (does /repo still compile with --cfg %s?):\n%s" % (GUARD, p.stderr[-4000:]))
    return EXPANDER_BIN


class Expander:
    def __init__(self):
        self.bin = build_expander()
        self.p = None
        self.calls = 0

    # resource fence of one expander process: a non-terminating expansion must show up as a failure of totality, not take the
    # machine down (address space 6 GiB, 60 s per call)
    MEM_LIMIT = 6 << 30
    CALL_TIMEOUT = 60

    def _start(self):
        def fence():
            import resource
            resource.setrlimit(resource.RLIMIT_AS, (Expander.MEM_LIMIT, Expander.MEM_LIMIT))
        self.p = subprocess.Popen([self.bin], stdin=subprocess.PIPE, stdout=subprocess.PIPE, stderr=subprocess.DEVNULL, preexec_fn=fence)

    def call(self, mode, a, b):
        if self.p is None or self.p.poll() is not None:
            self._start()
        ab, bb = a.encode(), b.encode()
        self.p.stdin.write(("%s %d %d\n" % (mode, len(ab), len(bb))).encode() + ab + bb)
        self.p.stdin.flush()
        import select
        ready, _, _ = select.select([self.p.stdout], [], [], self.CALL_TIMEOUT)
        if not ready:
            self.p.kill()
            self.p.wait()
            self.p = None
            self.calls += 1
            return {"status": "crash", "note": "expansion did not return within %d s (process killed)" % self.CALL_TIMEOUT}
        line = self.p.stdout.readline()
        self.calls += 1
        if not line:
            # process died (abort, stack overflow): that is an observable failure of totality
            rc = self.p.wait()
            self.p = None
            return {"status": "crash", "note": "expander process exited rc=%s" % rc}
        return json.loads(line)

    def attr(self, attr, item):
        return self.call("attr", attr, item)

    def derive(self, item):
        return self.call("derive", "", item)

    def lex(self, text):
        return self.call("lex", "", text)

    def close(self):
        if self.p and self.p.poll() is None:
            try:
                self.p.stdin.write(b"quit\n")
                self.p.stdin.flush()
                self.p.wait(timeout=5)
            except Exception:
                self.p.kill()


# ---------------------------------------------------------------- known findings
def load_known_findings():
    path = os.path.join(VERIF, "known_findings.jsonl")
    out = []
    if os.path.exists(path):
        for l in open(path):
            l = l.strip()
            if l and not l.startswith("#"):
                out.append(json.loads(l))
    return out


# ---------------------------------------------------------------- run context
class Ctx:
    def __init__(self, pid, tier, seed):
        self.pid, self.tier, self.seed = pid, tier, seed
        self.t0 = time.time()
        self.violations = []       # dicts: {key, what, replay}
        self.g_failures = []       # failed Verus obligations, turned into violations by flush_g()
        self.known_hit = []
        self.undecided = []
        self.cov = {}
        self.assumptions = []
        self.notes = []
        self.findings = [f for f in load_known_findings() if f.get("property") == pid and f.get("status") == "finding"]
        os.makedirs(os.path.join(REPLAYS, pid), exist_ok=True)
        self._n = 0

    @property
    def quick(self):
        return self.tier == "quick"

    def finding_for(self, key):
        for f in self.findings:
            if f.get("key") == key:
                return f
        return None

    def violation(self, key, what, replay_obj, no_input=False):
        """key: stable identifier of the failing input / obligation (matched against known_findings.jsonl)."""
        f = self.finding_for(key)
        if f is not None:
            if key not in [k for k, _ in self.known_hit]:
                self.known_hit.append((key, f.get("what", what)))
            return
        self._n += 1
        path = os.path.join(REPLAYS, self.pid, "%s_%03d.json" % (self.tier, self._n))
        replay_obj = dict(replay_obj)
        replay_obj.update({"property": self.pid, "key": key, "what": what})
        with open(path, "w") as fh:
            json.dump(replay_obj, fh, indent=1)
        self.violations.append({"key": key, "what": what, "replay": path, "no_input": no_input})

    def flush_g(self):
        """Each failed Verus obligation is a violation.  Verus gives no counterexample: if another layer of the same run
        found a failing input on the real code, that replay is attached; otherwise the line ends no-failing-input-found."""
        concrete = [v for v in self.violations if not v["no_input"]]
        for f in self.g_failures:
            obj = {"layer": "G", "obligation": f["key"], "failed": f["message"], "contract": f["contract_line"],
                   "source": f["source"], "verifier_output": f["verus_output"]}
            if concrete:
                obj["counterexample_replay"] = concrete[0]["replay"]
                obj["counterexample_key"] = concrete[0]["key"]
            self.violation(f["key"], "Verus obligation failed: %s in %s" % (f["message"], f["function"]), obj, no_input=not concrete)
        self.g_failures = []

    def finish(self, level, coverage):
        self.flush_g()
        wall = time.time() - self.t0
        for key, what in self.known_hit:
            print("KNOWN-FINDING: property=%s %s" % (self.pid, what))
        self.violations.sort(key=lambda v: 0 if v["key"].startswith("G:") else 1)   # named proof obligations first
        for v in self.violations[:50]:
            tail = " no-failing-input-found" if v["no_input"] else ""
            print("VIOLATION property=%s replay=%s%s" % (self.pid, v["replay"], tail))
            print("  obligation/input: %s -- %s" % (v["key"], v["what"][:300]))
        ev = {
            "property_id": self.pid, "tier": self.tier, "seed": self.seed, "level": level,
            "coverage": coverage, "assumptions": self.assumptions, "wall_s": round(wall, 2),
            "violations": len(self.violations),
        }
        if self.known_hit:
            ev["coverage"]["known_findings_reobserved"] = [k for k, _ in self.known_hit]
        if self.undecided:
            ev["coverage"]["undecided"] = self.undecided[:50]
        os.makedirs(EVIDENCE, exist_ok=True)
        with open(os.path.join(EVIDENCE, self.pid + ".json"), "w") as fh:
            json.dump(ev, fh, indent=1)
        if self.violations:
            return 1
        if self.undecided:
            print("UNDECIDED property=%s: %s" % (self.pid, "; ".join(str(u) for u in self.undecided[:5])))
            return 2
        print("OK property=%s tier=%s wall=%.1fs" % (self.pid, self.tier, wall))
        return 0


def git_head(path):
    p = sh(["git", "-C", path, "rev-parse", "--short", "HEAD"])
    return p.stdout.strip()


def sha(s):
    return hashlib.sha256(s.encode()).hexdigest()[:12]

"""Layer B helpers: bounded runs through the in-process expander (real generator code, executed natively)."""
import refmodel as R

ENTRY_ITEMS = {"Eq": 2}   # an accepted Eq entry emits the impl and the `const _` checker


def split_entries(items, traits, has_item):
    """Map the expansion's items back to the derive entries by position.
    Returns list of (trait, 'ok'|'error', msg|None) or None if the shape is unexpected."""
    i = 1 if has_item else 0
    out = []
    for t in traits:
        if i >= len(items):
            return None
        it = items[i]
        if it["kind"] == "compile_error":
            out.append((t, "error", it.get("msg", "")))
            i += 1
            continue
        n = ENTRY_ITEMS.get(t, 1)
        if it["kind"] != "impl":
            return None
        out.append((t, "ok", None))
        i += n
    if i != len(items):
        return None
    return out


PLACEMENTS = {
    "named": lambda at: "struct X { %s a: u8 }" % at,
    "tuple": lambda at: "struct X(%s u8);" % at,
    "variant": lambda at: "enum X { A, B { %s a: u8 }, C(u8) }" % at,
    "variant_tuple": lambda at: "enum X { A(%s u8) }" % at,
    # plain neighbours of the same type around the attributed field: a field is judged on its own attributes only
    "named_after_plain": lambda at: "struct X { z: u8, %s a: u8, y: u8 }" % at,
    "tuple_after_plain": lambda at: "struct X(u8, %s u8);" % at,
    "variant_after_plain": lambda at: "enum X { A, B { z: u8, %s a: u8 }, C(u8) }" % at,
}


def expand(ex, entry, traits, item):
    lst = ", ".join(traits)
    if entry == "attr":
        r = ex.attr(lst, item)
        has_item = True
    else:
        r = ex.derive("#[derive_ex(%s)] %s" % (lst, item))
        has_item = False
    return r, has_item

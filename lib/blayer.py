"""Layer B helpers: bounded runs through the in-process expander (real generator code, executed natively)."""
import re
import refmodel as R

ENTRY_ITEMS = {"Eq": 2}   # an accepted Eq entry emits the impl and the `const _` checker


def split_entries(items, traits, has_item):
    """Map the expansion's items back to the derive entries by position.
    Returns list of (trait, 'ok'|'error', msg|None) or None if the shape is unexpected."""
    i = 1 if has_item else 0
    out = []
    for t in traits:
        if i >= len(items):
            return None
        it = items[i]
        if it["kind"] == "compile_error":
            out.append((t, "error", it.get("msg", "")))
            i += 1
            continue
        n = ENTRY_ITEMS.get(t, 1)
        if it["kind"] != "impl":
            return None
        out.append((t, "ok", None))
        i += n
    if i != len(items):
        return None
    return out


PLACEMENTS = {
    "named": lambda at: "struct X { %s a: u8 }" % at,
    "tuple": lambda at: "struct X(%s u8);" % at,
    "variant": lambda at: "enum X { A, B { %s a: u8 }, C(u8) }" % at,
    "variant_tuple": lambda at: "enum X { A(%s u8) }" % at,
    # plain neighbours of the same type around the attributed field: a field is judged on its own attributes only
    "named_after_plain": lambda at: "struct X { z: u8, %s a: u8, y: u8 }" % at,
    "tuple_after_plain": lambda at: "struct X(u8, %s u8);" % at,
    "variant_after_plain": lambda at: "enum X { A, B { z: u8, %s a: u8 }, C(u8) }" % at,
}


def take_qualified_attr(tokens):
    """(args, rest) if the re-emitted item still starts with a derive_ex attribute macro (bare or crate path), else None (token text from the expander)"""
    # inert attributes (lints, docs, ..) in front of it stay on the item: rustc expands the first attribute *macro*, wherever it stands
    lead = ""
    while True:
        m = re.match(r"\s*#\s*\[\s*(?:(?:::\s*)?derive_ex\s*::\s*)?derive_ex\s*\(", tokens)
        if m:
            break
        m0 = re.match(r"\s*#\s*\[", tokens)
        if not m0:
            return None
        i, depth = m0.end(), 1
        while i < len(tokens) and depth:
            depth += {"[": 1, "]": -1}.get(tokens[i], 0)
            i += 1
        if depth:
            return None
        lead, tokens = lead + tokens[:i] + " ", tokens[i:]
    i = m.end()
    depth = 1
    while i < len(tokens) and depth:
        depth += {"(": 1, ")": -1}.get(tokens[i], 0)
        i += 1
    m2 = re.match(r"\s*\]", tokens[i:])
    if depth or not m2:
        return None
    return tokens[m.end():i - 1], lead + tokens[i + m2.end():]



SPLIT_SPELLINGS = {"attr_split_bare": "derive_ex", "attr_split_path": "derive_ex::derive_ex", "attr_split_abs": "::derive_ex::derive_ex"}


def expand_rustc(ex, args, item, fuel=6):
    """attribute macros expand outside-in: the first derive_ex attribute runs; if the item it re-emits still carries a derive_ex attribute
    macro (bare or written with the crate path, inert attributes in front of it skipped) that one is expanded next (in-process emulation of
    rustc's expansion loop). Returns a result shaped like one expansion: the final item followed by all generated items, in order."""
    gen, outs = [], []
    while fuel:
        fuel -= 1
        r = ex.attr(args, item)
        if r["status"] != "ok" or not r.get("items"):
            return r
        gen += r["items"][1:]
        outs.append(r.get("out", ""))
        nxt = take_qualified_attr(r["items"][0]["tokens"])
        if nxt is None:
            return {"status": "ok", "items": [r["items"][0]] + gen, "out": "\n".join(outs)}
        args, item = nxt
    return {"status": "crash", "note": "expansion loop did not end"}


def expand(ex, entry, traits, item):
    lst = ", ".join(traits)
    if entry in SPLIT_SPELLINGS and len(traits) > 1:
        # the list split over stacked attributes: first trait in the invoking attribute, the rest in a sibling (one request, by the documentation)
        return expand_rustc(ex, traits[0], "#[%s(%s)] %s" % (SPLIT_SPELLINGS[entry], ", ".join(traits[1:]), item)), True
    if entry in SPLIT_SPELLINGS:
        entry = "attr"
    if entry == "attr":
        r = ex.attr(lst, item)
        has_item = True
    else:
        r = ex.derive("#[derive_ex(%s)] %s" % (lst, item))
        has_item = False
    return r, has_item

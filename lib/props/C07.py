"""C07: clone is field-wise; clone_from leaves target equal to a clone of the source."""
import random
import fam2, elayer as E

LEVEL = "proof"


def canary():
    rng = random.Random(7)
    p = fam2.c07_prog("p_canary", rng, force=False)
    # a wrong expectation (clone recorded as clone_from) must be refuted
    p.text = p.text.replace("l.put(1); l.put(x0.id);", "l.put(2); l.put(x0.id);", 1)
    return p


def run(ctx):
    rng = random.Random(ctx.seed + 7)
    n = 40 if ctx.quick else 600
    progs = [fam2.c07_prog("p_%04d" % i, rng) for i in range(n)]
    can = None
    r2 = random.Random(1)
    while can is None:
        c = fam2.c07_prog("p_canary", r2, force=False)
        if "x0.gen.wrapping_add(1)" in c.text:
            c.text = c.text.replace("x0.gen.wrapping_add(1)", "x0.gen.wrapping_add(2)", 1)
            can = c
    st = E.run_family(ctx, "C07", progs, can, extra_support=fam2.C07_SUPPORT)
    ctx.assumptions += [
        "Kani 0.68 / CBMC 6.11, proof_for_contract with kani::modifies(log); loop-free harnesses over symbolic ids and a symbolic ordered pair of variants => complete per program",
        "calls are observed through a log with interior mutability carried by the field values (type Tr<'a>) and, for items without generics, in the value itself (type Tg: clone => gen+1, clone_from => gen+16); field types are Copy with a hand-written Clone; trait lists Clone / Copy+Clone / Clone+Copy; shapes are a seeded family (structs 0-4 fields, enums 1-4 variants)",
        "`b` untouched is guaranteed by the &Self signature of clone_from (no interior mutability in the payload)",
    ]
    cov = dict(st)
    cov.update({"obligations": st["kani_harnesses"], "discharged": st["kani_verified"],
                "checker_cmd": "cargo kani -Z function-contracts -j 16 --output-format terse (crates build/e/C07/*)",
                "trusted_base": ["Kani 0.68.0 / CBMC 6.11", "rustc (real proc-macro expansion)"],
                "functions_under_contract": ["w_clone, w_clone_from wrappers of the generated Clone::clone / Clone::clone_from of every program"],
                "samples": [p.meta["describe"] for p in progs[:5]]})
    return ctx.finish(LEVEL, cov)


def replay(path):
    return E.replay_file(path)

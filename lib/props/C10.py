"""C10: Debug prints like the std derive minus ignored fields; transparent delegates."""
import random, json
import fam2, elayer as E, glayer, blayer as B
from common import Expander

LEVEL = "proof"
G_UNITS = {"builders": ["build_debug_expr", "build_debug_for_struct", "build_debug_for_enum", "HelperAttributes::is_debug_ignore"],
           "kinds": ["HelperAttributeKinds::extend"]}      # which helper attributes are read: `debug` iff Debug is among the requested traits, wherever it stands


def rejections(ctx, ex):
    n = 0
    for item, must in [("struct X { #[debug(transparent)] a: u8, #[debug(transparent)] b: u8 }", True), ("struct X(#[debug(transparent)] u8, u8, #[debug(transparent)] u8);", True),
                       ("enum X { A(#[debug(transparent)] u8, #[debug(transparent)] u8), B }", True), ("enum X { A(#[debug(transparent)] u8), B(#[debug(transparent)] u8) }", False),
                       ("struct X { #[debug(transparent)] a: u8, #[debug(ignore)] b: u8 }", False), ("struct X(#[debug(transparent, ignore)] u8);", False),
                       ("struct X { #[debug(transparent, ignore)] a: u8, #[debug(transparent)] b: u8 }", True), ("struct X(#[debug(ignore, transparent)] u8, #[debug(transparent)] u8);", True),
                       ("enum X { A { #[debug(transparent)] #[allow(unused)] a: u8, #[debug(ignore, transparent)] b: u8 }, B }", True)]:
        for entry in ("attr", "derive"):
            r, has_item = B.expand(ex, entry, ["Debug"], item)
            n += 1
            res = B.split_entries(r.get("items") or [], ["Debug"], has_item) if r["status"] == "ok" and r.get("items") is not None else None
            if res is None or (res[0][1] == "error") != must:
                ctx.violation("B:C10:%s:%s" % (item, entry), "%s must be %s" % (item, "rejected" if must else "accepted"), {"layer": "B", "item": item, "entry": entry, "result": r})
    return n


def run(ctx):
    rng = random.Random(ctx.seed + 10)
    n = 60 if ctx.quick else 1500
    progs = [fam2.c10_prog("p_%04d" % i, rng, ["attr", "derive"][i % 2]) for i in range(n)]
    # every hostile field name once as the first field of a named struct / enum variant (twice in the thorough tier)
    for rep in range(1 if ctx.quick else 4):
        for hn in fam2.C10_HOSTILE_NAMES:
            progs.append(fam2.c10_prog("p_%04d" % len(progs), rng, ["attr", "derive"][len(progs) % 2], first_name=hn))
    st = E.run_family(ctx, "C10", progs, None, per=80, extra_support=fam2.C10_SUPPORT)
    ex = Expander()
    nr = rejections(ctx, ex)
    ex.close()
    g = glayer.run_g(ctx, G_UNITS)
    ctx.assumptions += [
        "layer G (Verus, all field/variant counts): build_debug_expr is rejected iff a struct/variant has >= 2 transparent fields; ignored fields and non-transparent fields next to a transparent one are not visited (bounds contract of the same function)",
        "the printed text is decided by a bounded native comparison: derive_ex type vs a twin carrying #[derive(Debug)] with the ignored fields deleted (or the transparent field alone), 14 format specs (alternate, width, fill/alignment, sign, precision, hex), 250 pseudo-random values per program; values only flow through the fields' own Debug impls",
        "Kani is not used for the text: core::fmt needs unwinding bounds (17 s per 3-field harness) and would be bounded as well",
    ]
    cov = {"obligations": g["obligations"], "discharged": g["discharged"], "checker_cmd": "verus build/g/builders.rs; cargo run --bin ncheck (crates build/e/C10/*)",
           "trusted_base": ["Verus/Z3", "rustc + the standard derive(Debug) as oracle"], "functions_under_contract": g["functions_under_contract"], "g_units": g["units"],
           "bounded": {"programs": len(progs), "native_checks": st.get("native_checks"), "format_specs": len(fam2.C10_SPECS), "values_per_program": 250, "rejection_cases": nr,
                       "programs_rejected_by_rustc": st["programs_rejected_by_rustc"]},
           "evaluations": len(progs) * 250 * len(fam2.C10_SPECS), "distinct_nontrivial": len(progs), "samples": [p.meta["describe"][:200] for p in progs[:4]]}
    return ctx.finish(LEVEL, cov)


def replay(path):
    return E.replay_file(path)

"""C20: whatever expansion accepts without an error of its own type-checks."""
import random, json
import fam2, elayer as E
from common import Expander

LEVEL = "other"

# crossings the statement names explicitly (each must compile, warning-free)
DEDICATED = [
    # lint attributes of the user and generated code (hunt 3): an expectation fulfilled by the item itself, forbid of a lint the generator
    # used to allow, a diverging default value, allow(warnings) on a field of a deprecated type, lint attributes on a user-written operator impl
    ("crate_path_siblings_on_enum_and_struct", "#[derive_ex::derive_ex(Debug)]\n#[derive_ex::derive_ex(Clone)]\n#[::derive_ex::derive_ex(PartialEq, Default)]\npub enum X { #[default] A, B(u8) }\n#[derive_ex::derive_ex(Debug)]\n#[derive_ex::derive_ex(Clone)]\n#[::derive_ex::derive_ex(PartialEq, Default)]\npub struct Y { pub a: u8 }\n#[derive_ex::derive_ex(Hash)]\n/// doc between\n#[derive_ex::derive_ex(PartialEq, Eq)]\npub enum Z<T> { A { #[eq(key = crate::support::gk(&$))] a: T }, B }"),
    ("default_on_reference_field", "#[derive_ex::derive_ex(Default, Clone, Debug)]\npub struct X<'a, T>(pub &'a T, pub Option<&'a T>);\n#[derive(derive_ex::Ex)]\n#[derive_ex(Default)]\npub enum E<'a, T> { A, #[default] B { r: &'a [T] } }"),
    ("nested_self_in_type_macro_of_user_impl", "macro_rules! pair { ($t:ty) => { $t }; }\nmacro_rules! arr { ([$t:ty; $n:expr]) => { [$t; $n] }; }\n#[derive(Clone)]\npub struct P(pub u8);\n#[derive_ex::derive_ex(Sub)]\nimpl core::ops::Sub<P> for P { type Output = pair!((Self, Self)); fn sub(self, r: P) -> (P, P) { (self, r) } }\n#[derive(Clone)]\npub struct Q(pub u8);\n#[derive_ex::derive_ex(Add)]\nimpl core::ops::Add<Q> for Q { type Output = arr!([Self; 2]); fn add(self, r: Q) -> [Q; 2] { [self, r] } }\npub fn forms(a: P, b: P, c: Q, d: Q) -> ((P, P), [Q; 2]) { (&a - &b, &c + d) }"),
    ("value_names_of_generated_params", "#[allow(non_camel_case_types)]\n#[derive(Clone)]\npub struct rhs;\n#[allow(non_camel_case_types)]\n#[derive_ex::derive_ex(Add)]\nimpl core::ops::AddAssign<u8> for rhs { fn add_assign(&mut self, _r: u8) {} }\n#[allow(non_upper_case_globals)]\npub const lhs: u8 = 1;\n#[allow(non_upper_case_globals)]\npub const this: u8 = 2;\n#[allow(non_upper_case_globals)]\npub const other: u8 = 3;\n#[derive_ex::derive_ex(Mul, MulAssign)]\nimpl core::ops::Mul<u8> for P2 { type Output = P2; fn mul(self, _r: u8) -> P2 { self } }\n#[derive(Clone)]\npub struct P2;"),
    ("expect_deprecated_on_field", "#[deprecated]\n#[derive(Clone, Debug, PartialEq, Default)]\npub struct Old(pub u8);\n#[derive_ex::derive_ex(Clone, Debug, PartialEq, Default)]\npub struct X { #[expect(deprecated)] pub a: Old, pub b: u8 }\n#[derive(derive_ex::Ex)]\n#[derive_ex(Clone, PartialEq, Debug)]\npub enum E { A(#[expect(deprecated)] Old), B }"),
    ("forbid_deprecated_without_deprecated", "#[forbid(deprecated)]\n#[derive_ex::derive_ex(Clone, Debug, PartialEq, Default, Add, Not)]\npub struct X(pub u8);\n#[warn(deprecated)]\n#[deny(warnings)]\n#[derive(derive_ex::Ex)]\n#[derive_ex(Clone, PartialEq, Hash)]\npub enum E { A, B(u8) }"),
    ("expect_on_item", "#[expect(non_camel_case_types)]\n#[derive_ex::derive_ex(Clone, Debug, Default, PartialEq, Eq, PartialOrd, Ord, Hash)]\npub struct my_type { pub a: u8 }\n#[derive(derive_ex::Ex)]\n#[derive_ex(Clone, PartialEq)]\n#[expect(non_camel_case_types)]\npub enum my_enum { A, B(u8) }"),
    ("forbid_unused_parens", "#[forbid(unused_parens)]\n#[derive_ex::derive_ex(PartialEq, Eq, PartialOrd, Ord, Hash)]\npub struct X(pub u8, #[ord(key = crate::support::gk(&$))] pub u8, #[ord(key = ($.0))] pub (u8, u8), #[ord(reverse)] pub u8);\n#[forbid(unused_parens)]\n#[derive(derive_ex::Ex)]\n#[derive_ex(PartialEq, Eq, PartialOrd, Ord, Hash)]\npub enum E { A(u8, #[ord(key = $.1)] (u8, u8)), B { #[ord(by = crate::support::gby_ord)] #[hash(key = $)] x: u8 } }"),
    ("default_diverges", "#[derive_ex::derive_ex(Default, Clone)]\n#[default(todo!())]\npub struct X(pub u8);\n#[derive_ex::derive_ex(Default)]\n#[default(match 0u8 { _ => Y(1) }.pass())]\npub struct Y(pub u8);\nimpl Y { pub fn pass(self) -> Y { self } }"),
    ("allow_warnings_on_field", "#[deprecated]\n#[derive(Clone, Debug, PartialEq, Default)]\npub struct Old(pub u8);\n#[derive_ex::derive_ex(Clone, Debug, PartialEq, Default)]\npub struct X { #[allow(warnings)] pub a: Old, pub b: u8 }\n#[derive(derive_ex::Ex)]\n#[derive_ex(Clone, PartialEq)]\npub enum E { A(#[allow(warnings)] Old), #[allow(warnings)] B { o: Old } }"),
    ("lint_attrs_on_user_impl", "#[deprecated]\n#[derive(Clone)]\npub struct Old(pub u8);\n#[allow(deprecated)]\n#[derive_ex::derive_ex(Add, AddAssign)]\nimpl core::ops::Add<Old> for Old { type Output = Old; fn add(self, r: Old) -> Old { Old(self.0 + r.0) } }\n#[derive_ex::derive_ex(Sub)]\nimpl core::ops::Sub<Old> for Old { #![allow(deprecated)] type Output = Old; fn sub(self, r: Old) -> Old { Old(self.0 - r.0) } }\n"
     "#[derive(Clone)]\npub struct W<T, const N: usize>(pub [T; N]);\n#[allow(non_camel_case_types, non_upper_case_globals)]\n#[derive_ex::derive_ex(Mul)]\nimpl<t: Copy, const n: usize> core::ops::Mul<&W<t, n>> for &W<t, n> { type Output = W<t, n>; fn mul(self, _r: &W<t, n>) -> W<t, n> { W(self.0) } }"),
    ("hrtb_where_clause_operator", "#[derive_ex::derive_ex(Add)]\npub struct A<T>(pub T) where for<'x> &'x T: core::ops::Add<&'x T, Output = T>;\n#[derive_ex::derive_ex(Neg, Not)]\npub struct B<T, const N: usize> where for<'x> &'x T: core::ops::Neg<Output = T> + core::ops::Not<Output = T>, [u8; N]: Sized { pub a: T, pub b: T }"),
    ("self_in_type_macro_of_user_impl", "macro_rules! opt { ($t:ty) => { Option<$t> }; }\nmacro_rules! id { ($t:ty) => { $t }; }\n#[derive(Clone)]\npub struct A(pub u8);\n#[derive_ex::derive_ex(Sub)]\nimpl core::ops::Sub<A> for A { type Output = opt!(Self); fn sub(self, r: A) -> Option<A> { Some(A(self.0 - r.0)) } }\n#[derive(Clone)]\npub struct B(pub u8);\n#[derive_ex::derive_ex(Sub, SubAssign)]\nimpl core::ops::Sub<id!(Self)> for B { type Output = B; fn sub(self, r: B) -> B { B(self.0 - r.0) } }\npub fn all_forms(a: A, b: A, c: B, d: B) -> (Option<A>, Option<A>, Option<A>, B) { let mut e = &c - &d; e -= &d; e -= d.clone(); (&a - &b, &a - b.clone(), a.clone() - &b, &c - d - e) }"),
    # default value expressions that rely on the explicit bound written next to them (every level a bound can be written at)
    ("default_value_uses_field_bound", "pub trait Make { fn make() -> Self; }\n#[derive_ex::derive_ex(Default)]\npub struct X<T>(#[default(T::make(), bound(T: Make))] pub T, pub u8);"),
    ("default_value_uses_field_derive_ex_bound", "pub trait Make { fn make() -> Self; }\n#[derive_ex::derive_ex(Default, Clone)]\npub struct X<T> { #[default(T::make())] #[derive_ex(Default(bound(T: Make)))] pub a: T, pub b: Option<T> }"),
    ("default_value_uses_variant_bound", "pub trait Make { fn make() -> Self; }\n#[derive(derive_ex::Ex)]\n#[derive_ex(Default)]\npub enum X<T> { A, #[default] #[derive_ex(Default(bound(T: Make)))] B(#[default(T::make())] T, #[default(Some(T::make()), bound(T: Make, ..))] Option<T>) }"),
    ("default_value_uses_type_bound", "pub trait Make { fn make() -> Self; }\n#[derive_ex::derive_ex(Default(bound(T: Make)))]\npub struct X<T>(#[default(T::make())] pub T);"),
    ("by_first", "#[derive_ex::derive_ex(PartialEq, Eq)]\npub struct X(#[eq(by = crate::support::gby_eq)] pub u8, pub u8, pub u8);"),
    ("by_middle", "#[derive_ex::derive_ex(PartialEq, Eq, PartialOrd, Ord)]\npub struct X { pub a: u8, #[ord(by = crate::support::gby_ord)] pub b: u8, pub c: u8 }"),
    ("by_last", "#[derive_ex::derive_ex(PartialEq)]\npub enum X { A(u8, #[partial_eq(by = crate::support::gby_partial_eq)] u8), B }"),
    ("by_all_peq_forms", "#[derive_ex::derive_ex(PartialEq)]\npub struct X(#[partial_eq(by = crate::support::gby_partial_eq)] pub u8, #[eq(by = crate::support::gby_eq)] pub u8, #[partial_ord(by = crate::support::gby_partial_ord)] pub u8, #[ord(by = crate::support::gby_ord)] pub u8, pub u8);"),
    ("by_generic_field", "#[derive_ex::derive_ex(PartialEq, Eq, PartialOrd, Ord, Hash)]\npub struct X<T>(#[ord(by = crate::support::gby_ord)] #[hash(by = crate::support::gby_hash)] pub Option<T>, pub u8);"),
    ("key_generic_field_bound", "#[derive_ex::derive_ex(PartialEq, Eq, Hash)]\npub struct X<T>(#[eq(key = crate::support::gk(&$), bound(T: crate::support::Marker))] pub T);"),
    ("by_lifetime_field", "#[derive_ex::derive_ex(PartialEq, PartialOrd)]\npub struct X<'a, T>(#[partial_ord(by = crate::support::gby_partial_ord)] pub &'a T, pub u8);"),
    ("helper_bounds_type_level", "#[derive_ex::derive_ex(PartialEq, Eq, PartialOrd, Ord, Hash)]\n#[hash(bound(T: core::hash::Hash))] #[partial_eq(bound(T: PartialEq))] #[eq(bound(T: Eq))] #[partial_ord(bound(T: PartialOrd))] #[ord(bound(T: Ord))]\npub struct X<T>(pub T, pub u8);"),
    ("helper_bounds_variant_level", "#[derive_ex::derive_ex(PartialEq, Eq, PartialOrd, Ord, Hash)]\npub enum X<T, U> { #[hash(bound(T: core::hash::Hash))] #[eq(bound(T: Eq))] #[ord(bound(T: Ord))] A(T), #[partial_eq(bound(U: PartialEq))] #[partial_ord(bound(U: PartialOrd))] #[ord(bound(U: Ord + core::hash::Hash))] B { u: U }, C }"),
    ("helper_bounds_two_attrs", "#[derive_ex::derive_ex(PartialEq, Eq, Hash)]\n#[hash(bound(T: core::hash::Hash))] #[eq(bound(T: Eq))]\npub struct X<T> { pub t: T }"),
    ("debug_default_helper_bounds", "#[derive_ex::derive_ex(Debug, Default, Clone(bound(T: Clone)))]\n#[debug(bound(T: core::fmt::Debug))] #[default(_, bound(T: Default))]\npub struct X<T> { pub t: T }"),
    ("eq_self_where", "#[derive_ex::derive_ex(PartialEq, Eq)]\npub struct X<T>(pub T) where Self: Sized;"),
    ("eq_self_where_enum", "#[derive_ex::derive_ex(PartialEq, Eq, PartialOrd, Ord, Hash, Clone, Debug)]\npub enum X<T> where Self: Sized { A(T), B }"),
    ("param_named_h", "#[derive_ex::derive_ex(Hash)]\npub struct X<H>(pub H, #[hash(by = crate::support::gby_hash)] pub u8);"),
    ("lifetime_named_a_ops", "#[derive_ex::derive_ex(Add, SubAssign, Neg)]\npub struct X<'a>(pub crate::support::Lt<'a>);"),
    ("empty_enum_all", "#[derive_ex::derive_ex(Clone, Copy, Debug, PartialEq, Eq, PartialOrd, Ord, Hash)]\npub enum X {}"),
    ("single_variant_all", "#[derive_ex::derive_ex(Clone, Debug, Default, PartialEq, Eq, PartialOrd, Ord, Hash)]\npub enum X { A { a: u8 } }"),
    ("inline_bounds_defaults", "#[derive_ex::derive_ex(Clone, Debug, Default, PartialEq)]\npub struct X<T: Clone = u8, const N: usize = 2>(pub Option<T>, pub [u8; N]) where T: Sized;"),
    ("unsized_tail", "#[derive_ex::derive_ex(Debug, PartialEq, Eq, PartialOrd, Ord, Hash)]\npub struct X<T: ?Sized> { pub a: u8, pub t: T }"),
    ("deref_generic_where", "#[derive_ex::derive_ex(Deref, DerefMut)]\npub struct X<T>(pub Vec<T>) where T: Clone;"),
    ("default_all_kinds", "#[derive_ex::derive_ex(Default)]\npub enum X<T> { A, #[default] B { #[default(\"x\")] a: String, b: Option<T>, #[default(vec![1])] c: Vec<u8> } }"),
    ("debug_transparent_generic", "#[derive_ex::derive_ex(Debug)]\npub enum X<T, U> { A(#[debug(transparent)] T, #[debug(ignore)] U), B { #[debug(ignore)] a: U } }"),
    # user-written operator impls on references with *named* lifetimes (the named lifetime is part of the operand type, not a form to strip)
    ("impl_named_lifetime_in_output", "#[derive_ex::derive_ex(BitOr)]\nimpl<'a> core::ops::BitOr for &'a Cset { type Output = &'a Cset; fn bitor(self, rhs: &'a Cset) -> &'a Cset { if self.0 >= rhs.0 { self } else { rhs } } }\n#[derive(Clone)] pub struct Cset(pub u8);"),
    ("impl_static_rhs", "#[derive_ex::derive_ex(Add)]\nimpl core::ops::Add<&'static Clabel> for Clabel { type Output = Clabel; fn add(self, rhs: &'static Clabel) -> Clabel { Clabel(self.0 ^ rhs.0) } }\n#[derive(Clone)] pub struct Clabel(pub u8);"),
    ("impl_named_lifetime_assign", "#[derive_ex::derive_ex(Sub, SubAssign)]\nimpl<'a> core::ops::Sub<&'a Cv> for Cv { type Output = Cv; fn sub(self, rhs: &'a Cv) -> Cv { Cv(self.0 ^ rhs.0) } }\n#[derive(Clone)] pub struct Cv(pub u8);"),
    ("impl_elided_refs_generic", "#[derive_ex::derive_ex(Mul, MulAssign)]\nimpl<T: Copy> core::ops::Mul<&Cg<T>> for &Cg<T> where T: core::ops::Mul<Output = T> { type Output = Cg<T>; fn mul(self, rhs: &Cg<T>) -> Cg<T> { Cg(self.0 * rhs.0) } }\n#[derive(Clone)] pub struct Cg<T>(pub T);"),
    ("impl_from_assign_generic", "#[derive_ex::derive_ex(Shl)]\nimpl<T: Copy> core::ops::ShlAssign<u8> for Ch<T> where T: core::ops::ShlAssign<u8> { fn shl_assign(&mut self, rhs: u8) { self.0 <<= rhs } }\npub struct Ch<T>(pub T);"),
    ("underscore_field_names_enum", "#[derive_ex::derive_ex(Clone, Debug, Default, PartialEq, Eq, PartialOrd, Ord, Hash)]\npub enum X { #[default] A { _pad: u8, _x1: u8 }, B(u8) }"),
    ("underscore_field_names_struct", "#[derive_ex::derive_ex(Clone, Debug, Default, PartialEq, Eq, PartialOrd, Ord, Hash, Add, SubAssign, Neg)]\npub struct X { pub _pad: i8, pub _x1: i8 }"),
    ("non_snake_field_names_enum", "#[derive_ex::derive_ex(Clone, Debug, Default, PartialEq, Eq, PartialOrd, Ord, Hash)]\n#[allow(non_snake_case)]\npub enum X { #[default] A { fooBar: u8, Xy: u8 }, B(u8) }"),
    ("deprecated_field", "#[derive_ex::derive_ex(Clone, Debug, Default, PartialEq, Eq, PartialOrd, Ord, Hash)]\npub struct X { #[deprecated] pub old: u8, pub b: u8 }"),
    ("deprecated_variant", "#[derive_ex::derive_ex(Clone, Debug, PartialEq, Eq, PartialOrd, Ord, Hash)]\npub enum X { #[deprecated] Old(u8), New { #[deprecated] a: u8 } }"),
    ("item_level_lint_attrs", "#[deprecated] pub struct Old(pub u8);\n#[allow(deprecated)] impl Clone for Old { fn clone(&self) -> Self { Old(self.0) } }\n#[allow(deprecated)]\n#[derive_ex::derive_ex(Clone)]\npub struct A(pub Old);\n#[derive_ex::derive_ex(Clone)]\npub struct B(#[allow(deprecated)] pub Old);\n#[allow(non_camel_case_types)]\n#[derive_ex::derive_ex(Clone, Debug, PartialEq)]\npub struct P<t>(pub t);\n#[allow(non_upper_case_globals)]\n#[derive(derive_ex::Ex)]\n#[derive_ex(Clone, Default, PartialEq, Eq, Hash)]\npub enum E<const n: usize> { #[default] A([u8; n]), B }"),
    ("single_use_lifetimes", "#![deny(single_use_lifetimes)]\n#[derive_ex::derive_ex(Clone, Debug, PartialEq, Eq, PartialOrd, Ord, Hash)]\npub struct X<'a>(pub &'a str);\n#[derive_ex::derive_ex(PartialEq, Eq)]\npub enum Y<'a, 'b: 'a> { A(&'a u8), B { b: &'b str } }"),
    ("impl_item_paren_and_macro_ty", "macro_rules! ops { ($l:ty, $r:ty) => { #[derive_ex::derive_ex(Add)] impl core::ops::Add<$r> for $l { type Output = Cq; fn add(self, rhs: $r) -> Cq { Cq(self.0 ^ rhs.0) } } } }\nops!(&Cq, &Cq);\n#[derive(Clone)] pub struct Cq(pub u8);\n#[allow(unused_parens)]\n#[derive_ex::derive_ex(Sub)]\nimpl core::ops::Sub<(&Cr)> for (&Cr) { type Output = Cr; fn sub(self, rhs: &Cr) -> Cr { Cr(self.0 ^ rhs.0) } }\n#[derive(Clone)] pub struct Cr(pub u8);\npub fn uses(a: Cq, b: Cr) -> (Cq, Cr) { (a.clone() + a, b.clone() - b) }"),
    ("forbid_naming_lints", "#![forbid(non_snake_case, non_camel_case_types, non_upper_case_globals)]\n#[derive_ex::derive_ex(Clone, Debug, Default, PartialEq, Eq, PartialOrd, Ord, Hash)]\npub enum X<T> { #[default] A { a: u8, #[ord(by = crate::support::gby_ord)] #[hash(key = crate::support::gk(&$))] bb: Option<T> }, B(u8, #[ord(key = crate::support::gk(&$))] u8) }"),
    ("forbid_deprecated", "#![forbid(deprecated)]\n#[derive_ex::derive_ex(Clone, Debug, Default, PartialEq, Eq, PartialOrd, Ord, Hash, Add, Neg)]\npub struct X { pub a: i8, pub b: i8 }"),
    # recorded findings (known_findings.jsonl), re-observed on every run
    ("kf_field_level_allow", "#[derive_ex::derive_ex(Clone, PartialEq)]\npub struct X<T> { #[allow(unused_parens)] pub a: (T), #[allow(unused_braces)] pub b: [T; { 2 }] }"),
    ("kf_repr_packed", "#[derive_ex::derive_ex(Clone, PartialEq, Debug)]\n#[derive(Copy)]\n#[repr(packed)]\npub struct X { pub a: u8, pub b: u32 }"),
    ("kf_default_none_nested_option", "#[derive_ex::derive_ex(Default)]\npub struct X { #[default(None)] pub a: Option<Option<u8>> }"),
    ("type_macro_field", "macro_rules! v { ($t:ty) => { Vec<$t> } }\n#[derive_ex::derive_ex(Clone)]\npub struct X<T>(pub v!(T));"),
    ("ops_generic_all_forms", "#[derive_ex::derive_ex(Add, Sub, Mul, Div, Rem, BitAnd, BitOr, BitXor, Shl, Shr, AddAssign, SubAssign, MulAssign, DivAssign, RemAssign, BitAndAssign, BitOrAssign, BitXorAssign, ShlAssign, ShrAssign, Neg, Not)]\npub struct X<T, U> { pub a: T, pub b: U }"),
]


def run(ctx):
    rng = random.Random(ctx.seed + 20)
    n = 400 if ctx.quick else 6000
    progs = [fam2.c20_prog("p_%04d" % i, rng) for i in range(n)]
    for (nm, text) in DEDICATED:
        progs.append(E.Prog("p_d_" + nm, text + "\n\npub fn replay(_h: &str, _b: &[u8]) -> (bool, String) { (true, String::new()) }\n", [], {"describe": "dedicated: " + nm + ": " + text.replace("\n", " ")}))
    # only programs the macro itself accepts (no compile_error of its own) are obligations
    ex = Expander()
    kept, own_error = [], 0
    for p in progs:
        if p.name.startswith("p_d_"):
            kept.append(p)          # dedicated crossings are well-formed uses by construction: each must compile
            continue
        body = p.meta.get("plain") or p.text.split("\n\n")[0]
        if "#[derive" in body and not body.startswith("#!["):
            body = body[body.index("#[derive"):]        # helper items / macro definitions written in front of the item
        if body.startswith("#[derive_ex::derive_ex(") and "\nimpl" in body:
            # impl item: attribute entry point only; the item is the impl up to the end of its line
            a, rest = body[len("#[derive_ex::derive_ex("):].split(")]\n", 1)
            r = ex.attr(a, rest.split("\n")[0])
        else:
            r = ex.derive(body.replace("#[derive_ex::derive_ex(", "#[derive_ex(").replace("#[derive(derive_ex::Ex)]\n", ""))
        if r["status"] == "ok" and r.get("items") is not None and any(i["kind"] == "compile_error" for i in r["items"]):
            own_error += 1
            continue
        kept.append(p)
    ex.close()
    rejected = 0
    for ci in range(0, len(kept), 250):
        c = E.ECrate("C20", "c%02d" % (ci // 250), fam2.C20_SUPPORT, strict=True, strict_allow="")     # no lint is silenced: names are conventional
        for p in kept[ci:ci + 250]:
            c.add(p)
        c.write()
        rej = c.triage()
        for p in c.progs:
            if p.name in rej:
                rejected += 1
                d = rej[p.name][0]
                ctx.violation("E:C20:%s" % p.meta["describe"][:300], "derive_ex reported no error, yet rustc rejects (or warns about) generated code: %s" % d["message"],
                              {"layer": "E", "program": p.text, "harness": "", "meta": p.meta, "rustc": rej[p.name][:3], "extra_support": fam2.C20_SUPPORT, "strict": True})
    ctx.assumptions += [
        "the obligation 'the generated impls compile' is discharged by rustc's type checker (cargo check, every module under #![deny(warnings)]); generic impls are checked by rustc for all instantiations",
        "programs: a seeded grammar crossing trait lists x struct/enum shapes (incl. empty and single-variant enums) x lifetime/type/const parameters with inline bounds and where-clauses mentioning Self x field types over the parameters x comparison/debug/default attributes (accepted combinations, key/by on generic fields) x both entry points, plus %d dedicated crossings named by the statement" % len(DEDICATED),
        "programs for which derive_ex reports an error of its own are excluded (in-process expansion); user pieces are well-typed by construction (generic key/by functions)",
        "every layer-E crate of the other properties is a further instance: a program that does not compile there is reported by that property",
    ]
    cov = {"explanation": "rustc as the checker of the emitted impls, on a seeded program grammar + dedicated crossings",
           "evaluations": len(kept), "distinct_nontrivial": len(kept) - len(DEDICATED), "rule": "non-trivial = grammar program accepted by the macro; compiled metadata-only under deny(warnings)",
           "samples": [p.meta["describe"][:250] for p in kept[:4]], "programs": len(progs), "excluded_own_error": own_error, "rejected_by_rustc": rejected}
    return ctx.finish(LEVEL, cov)


def replay(path):
    rep = json.load(open(path))
    print("what:", rep.get("what"))
    c = E.ECrate("C20", "replay", rep.get("extra_support", ""), strict=True, strict_allow="" if rep.get("property") == "C20" else "non_camel_case_types, non_snake_case, non_upper_case_globals")
    c.add(E.Prog("p_replay", rep["program"], [], rep.get("meta")))
    c.write()
    rej = c.triage()
    for d in rej.get("p_replay", []):
        print(d["rendered"])
    print("compiles on the current tree" if not rej else "still rejected")
    return 1

"""C02: accepted attribute combinations give mutually coherent Eq/Ord/Hash impls."""
import random, json
import refmodel as R, cmpfam as F, elayer as E, glayer, blayer as B
from common import Expander
from props import C05

LEVEL = "proof"
G_UNITS = {"cmp_flags": ["lemma_c02_accepted_is_coherent", "HelperAttributesForCompareOp::is_ignore", "HelperAttributesForCompareOp::is_reverse",
                         "HelperAttributesForCompareOp::bad_attr", "CompareOp::is_effects_to"],
           "cmp_select": ["build_partial_eq_expr", "build_eq_expr", "build_partial_ord_expr", "build_ord_expr", "build_hash_expr"],
           "cmp_bodies": ["build_partial_eq_body", "build_eq_body", "build_partial_ord_body", "build_ord_body", "build_hash_body", "build_compare_op"]}
FULL = ["PartialEq", "Eq", "PartialOrd", "Ord", "Hash"]


G_UNITS["implitem"] = ["is_root_derive_ex_attr"]      # which sibling attributes belong to the request (split lists)

def programs(ctx):
    rng = random.Random(ctx.seed + 2)
    subsets = R.closed_subsets()
    out = []
    n = 50 if ctx.quick else 700
    i = 0
    while len(out) < n:
        derived = FULL if i % 2 == 0 else rng.choice([s for s in subsets if len(s) >= 2])
        derived = [t for t in ["PartialEq", "Eq", "PartialOrd", "Ord", "Hash"] if t in derived]
        acc = [c for c in F.accepted_for(derived) if any(c[a] for a in R.OPS)]
        c = rng.choice(acc)
        placement = ["named", "tuple", "variant"][i % 3]
        td = F.single_field_typedef(c, derived, placement, entry=["attr", "derive", "attr_split", "derive", "attr_split_colon", "attr", "attr_split_last", "attr_split_bare", "derive"][i % 9], keys="consistent", ty=rng.choice(["u8", "u8", "i16", "Option<u8>"]))
        # a second plain field makes tie-breaking observable
        plain = {a: () for a in R.OPS}
        v = td.variants[-1] if td.is_enum else td.variants[0]
        if placement != "variant":
            v.fields.append(F.Field("b" if v.kind == "named" else None, "u8", plain))
            if i % 3 == 1:
                # and one in FRONT of the attributed field: its contribution must not be touched by the attributes of the later field
                v.fields.insert(0, F.Field("z" if v.kind == "named" else None, "u8", plain))
        elif i % 2 == 0:
            # explicit discriminants, partly, colliding with positions: variants are ordered by declaration position, and `==` agrees with it
            td.discr = [[1, None, 0], [2, 0, None], [None, 3, 1]][(i // 6) % 3]
        out.append(F.build_prog("p_%04d" % i, td, want=(), laws=True))
        i += 1
    # `==` derived from a genuinely partial `partial_ord(by = ..)` (no Ord): incomparable pairs are not equal
    for j, (po, placement) in enumerate([(("by",), "named"), (("reverse", "by"), "tuple"), (("by",), "variant")]):
        c = {"ord": (), "partial_ord": po, "eq": (), "partial_eq": (), "hash": ()}
        td = F.single_field_typedef(c, ["PartialEq", "PartialOrd"], placement, entry=["attr", "derive"][j % 2], keys="consistent", ty="u8")
        out.append(F.build_prog("p_%04d" % (i + j), td, want=(), laws=True))
        # the same with a by that is not even reflexive (a NaN-like key): x == x is false exactly where partial_cmp(x, x) is None
        td = F.single_field_typedef(c, ["PartialEq", "PartialOrd"], placement, entry=["derive", "attr"][j % 2], keys="consistent", ty="u8")
        td.nonreflexive = True
        out.append(F.build_prog("p_%04d" % (i + 3 + j), td, want=(), laws=True))
    return out


def canary():
    # keys that are NOT consistent across attributes must break a law: the pipeline has to see it
    c = {"ord": ("key",), "partial_ord": (), "eq": (), "partial_eq": ("key",), "hash": ()}
    td = F.single_field_typedef(c, ["PartialEq", "Eq", "PartialOrd", "Ord"], "named", keys="distinct")
    return F.build_prog("p_canary", td, want=(), laws=True)


def run(ctx):
    progs = programs(ctx)
    st = E.run_family(ctx, "C02", progs, canary())
    # refusal half, executed: every combination x every supertrait-closed subset through the real expander
    ex = Expander()
    n = nontriv = 0
    subsets = R.closed_subsets()
    combos = list(R.all_combos())
    if ctx.quick:
        rng = random.Random(ctx.seed)
        combos = rng.sample(combos, 500)
    samples = []
    for derived in subsets:
        derived = [t for t in R.CMP_TRAITS if t in derived]
        a, b, smp = C05.matrix(ctx, ex, ["named"] if ctx.quick else ["named", "variant"], ["attr"], [R.restrict(c, derived) for c in combos], traits=derived)
        n += a; nontriv += b
        samples += smp[:1]
    ex.close()
    g = glayer.run_g(ctx, G_UNITS)
    ctx.assumptions += [
        "law half (layer E): Kani 0.68 / CBMC 6.11, proof_for_contract on law_* wrappers (postcondition `true` result) over symbolic pairs/triples; one consistent key `ck` for every key/by",
        "refusal half (layer G): lemma_c02_accepted_is_coherent is proved for all attribute states over the vocabulary of contracts/_vocab.rs; the link vocabulary <-> code is the contracts of is_ignore/is_reverse/bad_attr (this unit) and build_*_expr (unit cmp_select)",
        "refusal half, executed (bounded): combos x supertrait-closed subsets through the in-process expander",
    ]
    cov = dict(st)
    cov.update({
        "obligations": st["kani_harnesses"] + g["obligations"], "discharged": st["kani_verified"] + g["discharged"],
        "checker_cmd": "cargo kani -Z function-contracts -j 16 (crates build/e/C02/*) ; verus build/g/cmp_flags.rs",
        "trusted_base": ["Kani 0.68.0 / CBMC 6.11", "Verus/Z3", "rustc"],
        "functions_under_contract": ["law_* wrappers over the generated impls of every program"] + g["functions_under_contract"],
        "g_units": g["units"], "bounded": {"expansions": n, "rejecting_points": nontriv, "subsets": len(subsets), "combos": len(combos), "exhaustive": not ctx.quick},
        "samples": [p.meta["describe"] for p in progs[:4]] + samples[:2],
    })
    return ctx.finish(LEVEL, cov)


def replay(path):
    rep = json.load(open(path))
    if rep.get("layer") == "E":
        return E.replay_file(path)
    return C05.replay(path)

"""C18: Deref / DerefMut target the single field itself."""
import json, re as _re
import fam2, elayer as E, blayer as B, glayer
from common import Expander

LEVEL = "proof"


def programs(ctx):
    specs = [("tuple", "u8", False, ""), ("named", "u8", False, ""), ("tuple", "(u8, u8)", False, ""), ("named", "[u8; 2]", False, ""),
             ("tuple", "W<u8>", True, ""), ("named", "Option<u8>", True, "T: Copy"), ("tuple", "u8", True, "T: Copy + core::fmt::Debug"),
             ("tuple", "&'static u8", False, ""), ("named", "&'static u8", False, ""),
             # the type's own where-clause together with bound(..) arguments reaching Deref / DerefMut: both must end up on the impls
             ("tuple", "u8", True, "T: Copy", "Deref, DerefMut, bound(T: core::fmt::Debug)"),
             ("named", "Option<u8>", True, "T: Copy + core::fmt::Debug", "Deref(bound(T: Clone, ..)), DerefMut(bound(T: Clone))"),
             ("tuple", "W<u8>", True, "T: Copy", "Deref(bound()), DerefMut, bound(..)")]
    out = [fam2.c18_prog("p_%04d" % i, *s) for i, s in enumerate(specs)]
    # DerefMut derived next to a hand-written Deref whose Target is NOT the field type: deref_mut would have to return something else
    # than the field, so the derive must be refused (E0053), never silently coerced to the pointee
    for j, (decl, fld, tgt) in enumerate([("pub struct X(pub Box<u8>);", "0", "u8"), ("pub struct X<T> where T: Copy { pub a: Box<T> }", "a", "T"), ("pub struct X(pub &'static mut u8);", "0", "u8")]):
        g = "<T: Copy>" if "<T>" in decl else ""
        gi = "<T>" if g else ""
        text = ("#[derive_ex::derive_ex(DerefMut)]\n%s\nimpl%s core::ops::Deref for X%s { type Target = %s; fn deref(&self) -> &%s { &self.%s } }\n"
                "pub fn replay(_h: &str, _b: &[u8]) -> (bool, String) { (true, String::new()) }\n" % (decl, g, gi, tgt, tgt, fld))
        out.append(E.Prog("p_n%02d" % j, text, [], {"describe": "derive_ex(DerefMut) %s + hand-written Deref<Target = %s>  [must be refused]" % (decl, tgt)}, expect_compile=False))
    # unsized single field written as a bare trait object: no value can be built, but the impls must type-check with Target == the field type
    for j, decl in enumerate(["pub struct X(pub dyn core::fmt::Debug);", "pub struct X<'a>(pub dyn core::fmt::Debug + Send + 'a);", "pub struct X { pub a: dyn core::fmt::Debug + Send }", "pub struct X(pub [u8]);"]):
        fty = decl[decl.index("pub ", 5) + 4:].rstrip(";)} ").split(": ", 1)[-1]
        text = ("#[derive_ex::derive_ex(Deref, DerefMut)]\n%s\npub trait SameTy3<B: ?Sized> {} impl<A_: ?Sized> SameTy3<A_> for A_ {}\n"
                "pub fn target_is_field_type<'a>() where <X%s as core::ops::Deref>::Target: SameTy3<%s> {}\n"
                "pub fn replay(_h: &str, _b: &[u8]) -> (bool, String) { (true, String::new()) }\n" % (decl, "<'a>" if "<'a>" in decl else "", fty))
        out.append(E.Prog("p_u%02d" % j, text, [], {"describe": "derive_ex(Deref, DerefMut) %s  [unsized field: compile obligation, Target == %s]" % (decl, fty)}))
    # generic parameter lists the impl header cannot repeat verbatim (defaults), or that mention `Self`: the impls must type-check, Target == field type
    for j, (decl, inst, fty) in enumerate([("pub struct X<T = u8>(pub T);", "X<u16>", "u16"), ("pub struct X<const N: usize = 4>(pub [u8; N]);", "X<2>", "[u8; 2]"), ("pub struct X<T: ?Sized = str>(pub Box<T>);", "X<[u8]>", "Box<[u8]>"),
                                           ("pub struct X<'a, T: 'a + Clone = u8, const N: usize = 1> { pub a: &'a [T; N] }", "X<'static, u16, 3>", "&'static [u16; 3]"),
                                           ("pub struct X<T = u8> where T: Copy { pub a: Option<T> }", "X", "Option<u8>"), ("pub struct X<T>(pub T) where Self: Sized;", "X<u8>", "u8"),
                                           ("pub struct X<T: PartialEq<Self>>(pub Vec<T>);", "X<Y>", "Vec<Y>"),
                                           # field names that are raw identifiers (keywords), or look like generated locals
                                           ("pub struct X { pub r#type: u8 }", "X", "u8"), ("pub struct X<T> where T: Copy { pub r#fn: Box<[T]> }", "X<u8>", "Box<[u8]>"), ("pub struct X { pub r#match: (u8, u8) }", "X", "(u8, u8)"),
                                           ("pub struct X { pub __self_0: u8 }", "X", "u8"), ("pub struct X { pub r#value: u8 }", "X", "u8")]):
        for args in ("Deref, DerefMut", "Deref(bound(..)), DerefMut, bound(T: 'static, ..)") if "<T" in decl or " T:" in decl else ("Deref, DerefMut",):
            text = ("#[derive_ex::derive_ex(%s)]\n%s\nYDECLpub trait SameTy4<B: ?Sized> {} impl<A_: ?Sized> SameTy4<A_> for A_ {}\n"
                    "pub fn target_is_field_type() where <%s as core::ops::Deref>::Target: SameTy4<%s> {}\n"
                    "pub fn deref_is_field(x: &mut %s) -> bool { let p: *const %s = &x.%s; let a = core::ptr::eq(core::ops::Deref::deref(x), p); let m: *const %s = core::ops::DerefMut::deref_mut(x); a && core::ptr::eq(m, p) }\n"
                    "pub fn replay(_h: &str, _b: &[u8]) -> (bool, String) { (true, String::new()) }\n" % (args, decl, inst, fty, inst, fty, (_re.search(r"pub ((?:r#)?\w+):", decl).group(1) if "{ pub " in decl else "0"), fty)).replace("YDECL", "pub struct Y; impl PartialEq<X<Y>> for Y { fn eq(&self, _o: &X<Y>) -> bool { true } }\n" if "Y" in inst else "")
            out.append(E.Prog("p_g%02d%d" % (j, len(args) > 20), text, [], {"describe": "derive_ex(%s) %s  [parameter defaults / Self in the parameter list: compile obligation, Target == %s at %s]" % (args, decl, fty, inst)}))
    return out


def canary():
    p = fam2.c18_prog("p_canary", "tuple", "(u8, u8)", False, "")
    p.text = p.text.replace("core::ptr::eq(d, &x.0) }", "core::ptr::eq(&d.0, &x.0.1) }")
    assert "&x.0.1" in p.text
    return p


def arity(ctx, ex):
    n = 0
    for kind in ("tuple", "named", "unit"):
        for k in (0, 2, 3, 4):
            if kind == "unit" and k:
                continue
            fs = ["u8"] * k
            item = {"tuple": "struct X(%s);" % ", ".join(fs), "named": "struct X { %s }" % ", ".join("f%d: u8" % i for i in range(k)), "unit": "struct X;"}[kind]
            for tr in ("Deref", "DerefMut", "Deref, DerefMut"):
                for entry in ("attr", "derive"):
                    traits = [t.strip() for t in tr.split(",")]
                    r, has_item = B.expand(ex, entry, traits, item)
                    n += 1
                    res = B.split_entries(r.get("items") or [], traits, has_item) if r["status"] == "ok" and r.get("items") is not None else None
                    if res is None or any(st != "error" for _, st, _ in res):
                        ctx.violation("B:C18:arity:%s:%d:%s:%s" % (kind, k, tr, entry), "%s on a struct with %d fields must be rejected" % (tr, k), {"layer": "B", "item": item, "entry": entry, "traits": traits, "result": r})
    # several fields stay several fields whatever attributes they carry (a true #[cfg], doc comments, lint attributes, foreign helpers)
    for item in ["struct X { #[cfg(all())] a: u8, b: u16 }", "struct X(#[cfg(not(any()))] u8, u16);", "struct X<T> where T: Copy { a: T, #[cfg(unix)] b: u8, #[cfg(all())] c: u8 }",
                 "struct X { /// doc\n a: u8, #[allow(dead_code)] b: u16 }", "struct X(#[debug(ignore)] u8, #[cfg_attr(all(), allow(unused))] u16);", "struct X { #[cfg(all())] #[doc(hidden)] a: u8, #[cfg(all())] b: u8 }"]:
        for tr in ("Deref", "Deref, DerefMut"):
            traits = [t.strip() for t in tr.split(",")]
            r, has_item = B.expand(ex, "attr", traits, item)
            n += 1
            res = B.split_entries(r.get("items") or [], traits, has_item) if r["status"] == "ok" and r.get("items") is not None else None
            if res is None or any(st != "error" for _, st, _ in res):
                ctx.violation("B:C18:arity-attrs:%s:%s" % (tr, item), "%s on a struct with several fields must be rejected whatever attributes the fields carry" % tr, {"layer": "B", "item": item, "entry": "attr", "traits": traits, "result": r})
    return n


def run(ctx):
    progs = programs(ctx)
    st = E.run_family(ctx, "C18", progs, canary(), extra_support=fam2.C18_SUPPORT)
    ex = Expander()
    n = arity(ctx, ex)
    ex.close()
    g = glayer.run_g(ctx, {"misc": ["build_deref_for_struct"]})
    ctx.assumptions += [
        "layer G (Verus): build_deref_for_struct copied from /repo: Err <==> fields.len() != 1, and its unreachable!()/fields[0] sites are panic-free given kind in {Deref, DerefMut}",
        "Kani 0.68 / CBMC 6.11, proof_for_contract: pointer identity ptr::eq(deref(x), &x.field), write through deref_mut read back from the field; `Target == field type` is a trait-level type identity (SameTy) discharged by rustc's trait solver",
        "rejection of 0- and 2..4-field structs: executed through the real expander (bounded, exhaustive over the stated arities)",
        "heap-backed unsized-capable field types (Box<[u8]>, String) are not in the Kani family (allocator cost); pointer identity does not depend on the field type (the body is `&self.field`)",
    ]
    cov = dict(st)
    cov.update({"obligations": st["kani_harnesses"] + g["obligations"], "discharged": st["kani_verified"] + g["discharged"], "g_units": g["units"],
                "checker_cmd": "cargo kani -Z function-contracts -j 16 --output-format terse (crate build/e/C18/c00)",
                "trusted_base": ["Kani 0.68.0 / CBMC 6.11", "rustc trait solver for Target type identity"],
                "functions_under_contract": ["w_deref, w_deref_mut wrappers of the generated Deref::deref / DerefMut::deref_mut"],
                "bounded": {"arity_rejections_checked": n, "exhaustive": True}, "samples": [p.meta["describe"] for p in progs]})
    return ctx.finish(LEVEL, cov)


def replay(path):
    rep = json.load(open(path))
    if rep.get("layer") == "E":
        return E.replay_file(path)
    print(json.dumps(rep, indent=1)[:3000])
    return 1

"""C12: without helper attributes derive_ex is a drop-in for the standard derives."""
import random, json
import fam2, elayer as E

LEVEL = "proof"

SPECIAL = [
    # (name, text, compile expected) : shapes the grammar above cannot build; compiled and run natively against a std twin
    ("empty_enum", '#[derive_ex::derive_ex(Clone, Debug, PartialEq, Eq, PartialOrd, Ord, Hash)]\npub enum X {}\n\npub mod twin { #[derive(Clone, Debug, PartialEq, Eq, PartialOrd, Ord, Hash)] pub enum X {} }\npub fn ncheck() -> Vec<String> { Vec::new() }\n'),
    ("unsized_tail", '#[derive_ex::derive_ex(Debug, PartialEq, Eq, PartialOrd, Ord, Hash)]\npub struct X<T: ?Sized> { pub a: u8, pub t: T }\n\npub mod twin { #[derive(Debug, PartialEq, Eq, PartialOrd, Ord, Hash)] pub struct X<T: ?Sized> { pub a: u8, pub t: T } }\n'
     'pub fn ncheck() -> Vec<String> { let mut out = Vec::new(); let a: &X<[u8]> = &X { a: 1, t: [1u8, 2] }; let b: &X<[u8]> = &X { a: 1, t: [1u8, 3, 0] }; let ta: &twin::X<[u8]> = &twin::X { a: 1, t: [1u8, 2] }; let tb: &twin::X<[u8]> = &twin::X { a: 1, t: [1u8, 3, 0] };\n'
     '    if format!("{:?}", a) != format!("{:?}", ta) || format!("{:#?}", b) != format!("{:#?}", tb) { out.push("Debug differs for an unsized tail".to_string()); }\n'
     '    if (a == b) != (ta == tb) || a.partial_cmp(b) != ta.partial_cmp(tb) || a.cmp(b) != ta.cmp(tb) || b.cmp(a) != tb.cmp(ta) { out.push("comparison differs for an unsized tail".to_string()); }\n    out }\n'),
    ("const_param", '#[derive_ex::derive_ex(Clone, Debug, PartialEq, Eq, PartialOrd, Ord, Hash)]\npub struct X<const N: usize, T = u8>(pub [u8; N], pub T) where T: Copy;\n\npub mod twin { #[derive(Clone, Debug, PartialEq, Eq, PartialOrd, Ord, Hash)] pub struct X<const N: usize, T = u8>(pub [u8; N], pub T) where T: Copy; }\n'
     'pub fn ncheck() -> Vec<String> { let mut out = Vec::new(); let a = X::<2>([1, 2], 3u8); let b = X::<2>([1, 3], 0u8); let ta = twin::X::<2>([1, 2], 3u8); let tb = twin::X::<2>([1, 3], 0u8);\n'
     '    if format!("{:?}", a) != format!("{:?}", ta) || format!("{:#?}", b) != format!("{:#?}", tb) { out.push("Debug differs with a const parameter".to_string()); }\n'
     '    if (a == b) != (ta == tb) || a.cmp(&b) != ta.cmp(&tb) || a.clone().cmp(&a) != core::cmp::Ordering::Equal { out.push("comparison/clone differs with a const parameter".to_string()); }\n    out }\n'),
    ("lifetimes", '#[derive_ex::derive_ex(Clone, Debug, Default, PartialEq, Eq, PartialOrd, Ord, Hash)]\npub struct X<\'a, \'b: \'a, T: \'b>(pub &\'a str, pub Option<&\'b T>);\n\npub mod twin { #[derive(Clone, Debug, Default, PartialEq, Eq, PartialOrd, Ord, Hash)] pub struct X<\'a, \'b: \'a, T: \'b>(pub &\'a str, pub Option<&\'b T>); }\n'
     'pub fn ncheck() -> Vec<String> { let mut out = Vec::new(); let v = 5u8; let a = X("p", Some(&v)); let b = X("q", None); let ta = twin::X("p", Some(&v)); let tb = twin::X("q", None);\n'
     '    if format!("{:?}", a) != format!("{:?}", ta) || format!("{:?}", X::<u8>::default()) != format!("{:?}", twin::X::<u8>::default()) { out.push("Debug/Default differs with lifetimes".to_string()); }\n'
     '    if (a == b) != (ta == tb) || a.cmp(&b) != ta.cmp(&tb) || b.partial_cmp(&a) != tb.partial_cmp(&ta) { out.push("comparison differs with lifetimes".to_string()); }\n    out }\n'),
    ("assoc_projection", 'pub trait Fam { type Item; }\n#[derive(Clone, Debug, Default, PartialEq, Eq, PartialOrd, Ord, Hash)] pub struct F8; impl Fam for F8 { type Item = u8; }\n#[derive_ex::derive_ex(Clone, Debug, Default, PartialEq, Eq, PartialOrd, Ord, Hash)]\npub enum X<T: Fam, I> where I: Fam { #[default] E, One(T::Item), Two { a: Option<I::Item>, b: <T as Fam>::Item, c: Vec<T::Item> } }\n\n'
     'pub mod twin { use super::Fam; #[derive(Clone, Debug, Default, PartialEq, Eq, PartialOrd, Ord, Hash)] pub enum X<T: Fam, I> where I: Fam { #[default] E, One(T::Item), Two { a: Option<I::Item>, b: <T as Fam>::Item, c: Vec<T::Item> } } }\n'
     'pub fn ncheck() -> Vec<String> { let mut out = Vec::new(); let vs: Vec<(X<F8, F8>, twin::X<F8, F8>)> = vec![(X::E, twin::X::E), (X::One(3), twin::X::One(3)), (X::Two { a: Some(1), b: 2, c: vec![3] }, twin::X::Two { a: Some(1), b: 2, c: vec![3] }), (X::Two { a: None, b: 2, c: vec![] }, twin::X::Two { a: None, b: 2, c: vec![] })];\n'
     '    for (a, t) in vs.iter() { if format!("{:?}", a) != format!("{:?}", t) || format!("{:#?}", a.clone()) != format!("{:#?}", t.clone()) { out.push(format!("Debug/Clone differs: {:?} vs {:?}", a, t)); } }\n'
     '    for (a, t) in vs.iter() { for (b, u) in vs.iter() { if a.cmp(b) != t.cmp(u) || (a == b) != (t == u) || a.partial_cmp(b) != t.partial_cmp(u) { out.push("comparison differs".to_string()); } } }\n'
     '    if format!("{:?}", X::<F8, F8>::default()) != format!("{:?}", twin::X::<F8, F8>::default()) { out.push("Default differs".to_string()); }\n    out }\n'),
    ("non_reflexive_alias", '#[derive_ex::derive_ex(Clone, Debug, PartialEq, PartialOrd)]\npub enum X { A(f32, u8), B { p: crate::support::P }, C }\n\npub mod twin { #[derive(Clone, Debug, PartialEq, PartialOrd)] pub enum X { A(f32, u8), B { p: crate::support::P }, C } }\n'
     'pub fn ncheck() -> Vec<String> { let mut out = Vec::new(); let vs = vec![(X::A(f32::NAN, 1), twin::X::A(f32::NAN, 1)), (X::A(1.5, 1), twin::X::A(1.5, 1)), (X::B { p: P(255) }, twin::X::B { p: P(255) }), (X::B { p: P(3) }, twin::X::B { p: P(3) }), (X::C, twin::X::C)];\n'
     '    for (a, t) in vs.iter() { if (a == a) != (t == t) || a.partial_cmp(a) != t.partial_cmp(t) { out.push(format!("x == x / x.partial_cmp(x) on the same object differs from the standard derive for {:?}", a)); } }\n'
     '    for (a, t) in vs.iter() { for (b, u) in vs.iter() { if (a == b) != (t == u) || a.partial_cmp(b) != t.partial_cmp(u) || (a.clone() == *b) != (t.clone() == *u) { out.push(format!("comparison differs from the standard derive for {:?} vs {:?}", a, b)); } } }\n    out }\n'),
    ("ref_and_value", '#[derive_ex::derive_ex(Clone, Debug, PartialEq, Eq, PartialOrd, Ord, Hash)]\npub enum X<\'a, T> { Borrowed(&\'a T), Owned(T), Both { r: &\'a T, v: T }, Nested(Option<&\'a T>, Vec<T>) }\n#[derive_ex::derive_ex(Clone, Debug, PartialEq, Eq, PartialOrd, Ord, Hash)]\npub struct S<\'a, T> { pub r: &\'a T, pub v: T }\n\npub mod twin { #[derive(Clone, Debug, PartialEq, Eq, PartialOrd, Ord, Hash)] pub enum X<\'a, T> { Borrowed(&\'a T), Owned(T), Both { r: &\'a T, v: T }, Nested(Option<&\'a T>, Vec<T>) }\n #[derive(Clone, Debug, PartialEq, Eq, PartialOrd, Ord, Hash)] pub struct S<\'a, T> { pub r: &\'a T, pub v: T } }\npub fn ncheck() -> Vec<String> { let mut out = Vec::new(); let (p, q) = (1u8, 2u8);\n    let vs = vec![(X::Borrowed(&p), twin::X::Borrowed(&p)), (X::Borrowed(&q), twin::X::Borrowed(&q)), (X::Owned(1u8), twin::X::Owned(1u8)), (X::Owned(2), twin::X::Owned(2)), (X::Both { r: &q, v: 1 }, twin::X::Both { r: &q, v: 1 }), (X::Both { r: &p, v: 2 }, twin::X::Both { r: &p, v: 2 }), (X::Nested(Some(&p), vec![2]), twin::X::Nested(Some(&p), vec![2])), (X::Nested(None, vec![]), twin::X::Nested(None, vec![]))];\n    for (a, t) in vs.iter() { if format!("{:?}", a) != format!("{:?}", t) || format!("{:#?}", a.clone()) != format!("{:#?}", t.clone()) { out.push(format!("Debug/Clone differs: {:?} vs {:?}", a, t)); } }\n    for (a, t) in vs.iter() { for (b, u) in vs.iter() { if a.cmp(b) != t.cmp(u) || (a == b) != (t == u) || a.partial_cmp(b) != t.partial_cmp(u) { out.push(format!("comparison differs from the standard derive: {:?} vs {:?}", a, b)); } } }\n    let (sa, ta) = (S { r: &p, v: 2u8 }, twin::S { r: &p, v: 2u8 }); let (sb, tb) = (S { r: &q, v: 1u8 }, twin::S { r: &q, v: 1u8 });\n    if sa.cmp(&sb) != ta.cmp(&tb) || (sa == sb) != (ta == tb) || format!("{:?}", sa.clone()) != format!("{:?}", ta.clone()) { out.push("struct with a reference and a value of the same parameter differs".to_string()); }\n    out }\n'),
    ("via_macro_rules", 'macro_rules! with_ex { ($($b:tt)*) => { #[derive_ex::derive_ex(Clone, Debug, Default, PartialEq, Eq, PartialOrd, Ord, Hash)] $($b)* } }\nmacro_rules! with_std { ($($b:tt)*) => { #[derive(Clone, Debug, Default, PartialEq, Eq, PartialOrd, Ord, Hash)] $($b)* } }\nwith_ex! { pub struct X<T> { pub a: u8, pub t: Option<T> } }\nwith_ex! { pub enum Y { #[default] A, B(u8, bool), C { c: i16 } } }\n\npub mod twin { with_std! { pub struct X<T> { pub a: u8, pub t: Option<T> } }\n with_std! { pub enum Y { #[default] A, B(u8, bool), C { c: i16 } } } }\npub fn ncheck() -> Vec<String> { let mut out = Vec::new();\n    let xs = [(X { a: 1, t: Some(2u8) }, twin::X { a: 1, t: Some(2u8) }), (X { a: 1, t: None }, twin::X { a: 1, t: None }), (X::default(), twin::X::default())];\n    for (a, t) in xs.iter() { for (b, u) in xs.iter() { if a.cmp(b) != t.cmp(u) || (a == b) != (t == u) || format!("{:?}", a.clone()) != format!("{:?}", t.clone()) { out.push("struct from macro_rules differs from the standard derive".to_string()); } } }\n    let ys = [(Y::A, twin::Y::A), (Y::B(1, true), twin::Y::B(1, true)), (Y::C { c: -2 }, twin::Y::C { c: -2 }), (Y::default(), twin::Y::default())];\n    for (a, t) in ys.iter() { for (b, u) in ys.iter() { if a.cmp(b) != t.cmp(u) || a.partial_cmp(b) != t.partial_cmp(u) || (a == b) != (t == u) || format!("{:#?}", a.clone()) != format!("{:#?}", t.clone()) { out.push("enum from macro_rules differs from the standard derive".to_string()); } } }\n    out }\n'),
    ("same_type_two_lifetimes", '#[derive_ex::derive_ex(Clone, Debug, PartialEq)]\npub struct Diff<\'a, \'b, T> { pub old: &\'a T, pub new: &\'b T }\n\npub mod twin { #[derive(Clone, Debug, PartialEq)] pub struct Diff<\'a, \'b, T> { pub old: &\'a T, pub new: &\'b T } }\npub fn ncheck() -> Vec<String> { let mut out = Vec::new(); let (p, q) = (1u8, 2u8); let (a, t) = (Diff { old: &p, new: &q }, twin::Diff { old: &p, new: &q });\n    if format!("{:?}", a.clone()) != format!("{:?}", t.clone()) || (a == a.clone()) != (t == t.clone()) { out.push("differs".to_string()); } out }\n'),
    ("const_as_pattern", '#[derive_ex::derive_ex(PartialEq, Eq)]\npub struct S(pub u8);\npub const ZERO: S = S(0);\n\npub mod twin { #[derive(PartialEq, Eq)] pub struct S(pub u8); pub const ZERO: S = S(0); }\npub fn ncheck() -> Vec<String> { let mut out = Vec::new(); let a = match S(0) { ZERO => 1, _ => 2 }; let b = match twin::S(0) { twin::ZERO => 1, _ => 2 }; if a != b { out.push("differs".to_string()); } out }\n'),
    ("raw_idents", '#[derive_ex::derive_ex(Clone, Debug, Default, PartialEq, Eq, PartialOrd, Ord, Hash)]\npub struct r#struct { pub r#type: u8, pub r#fn: bool }\n\npub mod twin { #[derive(Clone, Debug, Default, PartialEq, Eq, PartialOrd, Ord, Hash)] pub struct r#struct { pub r#type: u8, pub r#fn: bool } }\n'
     'pub fn ncheck() -> Vec<String> { let mut out = Vec::new(); let a = r#struct { r#type: 1, r#fn: true }; let ta = twin::r#struct { r#type: 1, r#fn: true };\n'
     '    for (d, t) in [(format!("{:?}", a), format!("{:?}", ta)), (format!("{:#?}", a), format!("{:#?}", ta))] { if d != t { out.push(format!("Debug differs for raw identifiers: {:?} vs {:?}", d, t)); } }\n    out }\n'),
    ("raw_enum", '#[derive_ex::derive_ex(Clone, Debug, PartialEq, Eq, PartialOrd, Ord, Hash)]\npub enum r#enum { r#as(u8), r#dyn { r#in: u8 }, r#type }\n\npub mod twin { #[derive(Clone, Debug, PartialEq, Eq, PartialOrd, Ord, Hash)] pub enum r#enum { r#as(u8), r#dyn { r#in: u8 }, r#type } }\n'
     'pub fn ncheck() -> Vec<String> { let mut out = Vec::new(); let vs = [(r#enum::r#as(1), twin::r#enum::r#as(1)), (r#enum::r#dyn { r#in: 2 }, twin::r#enum::r#dyn { r#in: 2 }), (r#enum::r#type, twin::r#enum::r#type)];\n'
     '    for (a, t) in vs.iter() { if format!("{:?}", a) != format!("{:?}", t) || format!("{:#?}", a) != format!("{:#?}", t) { out.push(format!("Debug differs for raw identifiers: {:?} vs {:?}", a, t)); } }\n'
     '    for (a, t) in vs.iter() { for (b, u) in vs.iter() { if a.cmp(b) != t.cmp(u) || (a == b) != (t == u) { out.push("comparison differs".to_string()); } } }\n    out }\n'),
]


def canary():
    rng = random.Random(5)
    while True:
        p = fam2.c12_prog("p_canary", rng, "attr")
        if "Ord::cmp(&conv(x), &conv(y))" in p.text:
            p.text = p.text.replace("Ord::cmp(&conv(x), &conv(y))", "Ord::cmp(&conv(y), &conv(x))")
            if "u8" in p.meta["describe"]:
                return p


def run(ctx):
    rng = random.Random(ctx.seed + 12)
    n = 36 if ctx.quick else 500
    progs = [fam2.c12_prog("p_%04d" % i, rng, ["attr", "derive"][i % 2]) for i in range(n)]
    for (nm, text) in SPECIAL:
        progs.append(E.Prog("p_s_" + nm, text + "pub fn replay(h: &str, b: &[u8]) -> (bool, String) { (true, String::new()) }\n", [], {"describe": "special shape: " + nm}, ncheck=True))
    st = E.run_family(ctx, "C12", progs, canary(), per=45)
    ctx.assumptions += [
        "Kani 0.68 / CBMC 6.11: for every program the derive_ex impls agree with the standard derive on a twin type for ALL values (==, partial_cmp, cmp; clone and clone_from; default; == implies equal Hash feeds); eq/cmp/hash/default by proof_for_contract, partial_cmp/clone by loop-free assert harnesses",
        "Debug (all ten format specs) and the shapes Kani cannot build (empty enum, unsized tail, const parameters with defaults, lifetimes, raw identifiers) are compiled and compared natively on sampled values (bounded)",
        "type shapes are a seeded grammar (struct kinds, 0..5 variants, 0..4 fields, generics, where-clauses, repr(C)/non_exhaustive, raw identifiers); a program that does not compile is a violation carrying rustc's diagnostic",
    ]
    cov = dict(st)
    cov.update({"obligations": st["kani_harnesses"], "discharged": st["kani_verified"],
                "checker_cmd": "cargo kani -Z function-contracts -j 16 --output-format terse (crates build/e/C12/*); cargo run --bin ncheck",
                "trusted_base": ["Kani 0.68.0 / CBMC 6.11", "rustc (real proc-macro expansion; the standard derives as the oracle)"],
                "functions_under_contract": ["w_eq, w_partial_cmp, w_cmp, w_clone, w_hash, w_default wrappers of the generated impls of every program"],
                "samples": [p.meta["describe"][:200] for p in progs[:4]]})
    return ctx.finish(LEVEL, cov)


def replay(path):
    return E.replay_file(path)

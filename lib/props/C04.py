"""C04: explicit bound(...) follows the documented nine-level priority."""
import random, json
import boundfam as BF, glayer
from common import Expander

LEVEL = "proof"
G_UNITS = {
    "bounds": ["Bounds::new", "Bounds::push", "Bounds::from", "WhereClauseBuilder::push_bounds", "WhereClauseBuilder::push_bounds_for_field",
               "HelperAttributeForCompareOp::push_bounds_to", "HelperAttributesForCompareOp::push_bounds", "DeriveEntry::push_bounds_to",
               "DeriveEntry::push_bounds_to_with", "HelperAttributes::push_bounds_to", "HelperAttributes::push_bounds_to_without_helper",
               "HelperAttributes::push_bounds_to_raw", "FieldEntry::push_bounds_to", "CompareOp::is_effects_to"],
    "cmp_bodies": ["build_partial_eq_body", "build_eq_body", "build_partial_ord_body", "build_ord_body", "build_hash_body", "build_compare_op", "build_partial_eq_expr", "build_eq_expr", "build_partial_ord_expr", "build_ord_expr", "build_hash_expr"],
    "builders": ["build_copy_for_struct", "build_copy_for_enum", "build_clone_for_struct", "build_clone_for_enum", "build_debug_expr",
                 "build_debug_for_struct", "build_debug_for_enum", "build_default_ctor_args", "build_default_for_struct", "build_binary_op", "build_assign_op", "build_unary_op"],
}


def bounded(ctx, ex, per_trait):
    rng = random.Random(ctx.seed + 4)
    n = nontriv = 0
    samples = []
    fails = {}
    for is_enum in (False, True):
        for trait in (BF.ENUM_TRAITS if is_enum else BF.STRUCT_TRAITS):
            k = per_trait if trait in BF.ENUM_TRAITS else max(per_trait // 6, 8)
            for i in range(k):
                prog = BF.random_prog(rng, trait, is_enum)
                entry = "attr" if i % 2 == 0 else "derive"
                if trait in ("Default",) and is_enum:
                    pass
                ok, d = BF.check_prog(ex, prog, entry)
                n += 1
                used = sum(1 for s in prog.type_slots if s.assign != "absent")
                if used or any(s.assign != "absent" for v in prog.variants for s in v[2]):
                    nontriv += 1
                if not ok:
                    key = "B:C04:%s:%s:%s" % (trait, "enum" if is_enum else "struct", d["problem"][:40])
                    fails.setdefault(key, []).append(d)
                elif len(samples) < 4 and used >= 2:
                    samples.append(d)
    for key, ds in fails.items():
        ctx.violation(key, "%s (%d inputs, first: %s)" % (ds[0]["problem"], len(ds), ds[0]["item"][:200]), dict(ds[0], layer="B", failing_inputs=len(ds)))
    return n, nontriv, samples


def duplicates(ctx, ex):
    """the same trait named by two #[derive_ex(..)] attributes on one field / variant: every reached level contributes, so either both
    attributes take part or the duplicate is refused with a message - never one of them dropped silently"""
    cases = [("Clone", "struct X<T> { #[derive_ex(Clone(bound(T: P8, ..)))] #[derive_ex(Clone, bound(T: P9))] a: Box<T> }", ["P8", "P9"]),
             ("Clone", "struct X<T> { #[derive_ex(Clone, bound(T: P9))] #[derive_ex(Clone(bound(T: P8, ..)))] a: Box<T> }", ["P8", "P9"]),
             ("Debug", "enum X<T> { #[derive_ex(Debug(bound(T: P5, ..)))] #[derive_ex(Debug, bound(T: P6))] A(Box<T>), B }", ["P5", "P6"]),
             ("PartialEq", "struct X<T>(#[derive_ex(PartialEq(bound(T: P8, ..)), PartialEq(bound(T: P9)))] Box<T>);", ["P8", "P9"])]
    n = 0
    for trait, item, need in cases:
        for entry in ("attr", "derive"):
            r = ex.attr(trait, item) if entry == "attr" else ex.derive("#[derive_ex(%s)] %s" % (trait, item))
            n += 1
            its = r.get("items") or []
            impls = [i for i in its if i["kind"] == "impl"]
            errs = [i for i in its if i["kind"] == "compile_error"]
            if r["status"] != "ok" or (not impls and not errs):
                ctx.violation("B:C04:dup:%s:%s" % (entry, item), "expansion failed", {"layer": "B", "item": item, "args": trait, "entry": entry, "result": r})
            elif impls:
                wh = " ".join(impls[0]["where"])
                missing = [m for m in need if m not in wh]
                if missing:
                    ctx.violation("B:C04:dup:%s:%s" % (entry, item), "two #[derive_ex] attributes name %s on the same node: the bound(..) of one is silently dropped (missing %s; where-clause: %s)" % (trait, missing, wh),
                                  {"layer": "B", "item": item, "args": trait, "entry": entry, "where": impls[0]["where"]})
    return n


def foreign_levels(ctx, ex):
    """bound(..) written on a helper attribute that does NOT affect the trait (it belongs to a co-derived one) is not a level of that trait's
    resolution, with or without key / by next to it: where-clause(T | list with the co-derived trait, item with its attribute) ==
    where-clause(T alone | item without it)"""
    CASES = [("Eq", 2, "PartialEq", "struct X<T>(#[partial_eq(bound())] #[eq(key = kf(&$), bound(T: M1))] Option<T>);", "struct X<T>(#[eq(key = kf(&$), bound(T: M1))] Option<T>);"),
             ("Eq", 2, "PartialEq", "struct X<T> { #[partial_eq(by = g, bound(T: M0))] #[eq(by = h, bound(T: M1, ..))] a: Option<T>, #[partial_eq(bound(T: M2))] b: Vec<T> }", "struct X<T> { #[eq(by = h, bound(T: M1, ..))] a: Option<T>, b: Vec<T> }"),
             ("Eq", 2, "PartialEq, PartialOrd", "enum X<T> { A(#[partial_ord(bound())] #[ord(key = kf(&$), bound(T: M1, ..))] Option<T>), B { #[partial_eq(bound(T: M2))] #[eq(bound(T: M3, ..))] b: T } }", "enum X<T> { A(#[ord(key = kf(&$), bound(T: M1, ..))] Option<T>), B { #[eq(bound(T: M3, ..))] b: T } }"),
             ("Ord", 1, "PartialOrd, Eq, PartialEq", "struct X<T>(#[partial_ord(bound())] #[eq(bound(T: M0))] #[ord(by = f, bound(T: M1, ..))] Option<T>, T);", "struct X<T>(#[ord(by = f, bound(T: M1, ..))] Option<T>, T);"),
             ("Hash", 1, "PartialEq, Eq", "struct X<T> { #[partial_eq(bound())] #[eq(key = kf(&$), bound(T: M1, ..))] #[hash(bound(T: M2, ..))] a: Option<T> }", "struct X<T> { #[eq(key = kf(&$), bound(T: M1, ..))] #[hash(bound(T: M2, ..))] a: Option<T> }"),
             ("PartialOrd", 1, "PartialEq", "struct X<T>(#[partial_eq(bound())] #[partial_ord(key = kf(&$), bound(T: M1, ..))] Option<T>);", "struct X<T>(#[partial_ord(key = kf(&$), bound(T: M1, ..))] Option<T>);")]
    n = 0
    for main, k, co, with_attr, plain in CASES:
        for lst in ("%s, %s" % (main, co),):
            for entry in ("attr", "derive"):
                def impls(args, item):
                    r = ex.attr(args, item) if entry == "attr" else ex.derive("#[derive_ex(%s)] %s" % (args, item))
                    if r["status"] != "ok" or r.get("items") is None:
                        return None
                    its = r["items"][(1 if entry == "attr" else 0):]
                    return [sorted(BF.norm(p) for p in i.get("where", [])) for i in its[:k] if i["kind"] in ("impl", "const")] if len(its) >= k and all(i["kind"] != "compile_error" for i in its[:k]) else None
                tog, alone = impls(lst, with_attr), impls(main, plain)
                n += 2
                if tog is None or alone is None or tog != alone:
                    ctx.violation("B:C04:foreign-level:%s:%s:%s" % (lst, entry, with_attr), "a bound(..) on a helper attribute of a co-derived trait changes the where-clause of %s" % main,
                                  {"layer": "B", "item": with_attr, "args": lst, "entry": entry, "plain_item": plain, "where_in_list": tog, "where_alone_on_plain_item": alone})
    # the shared bound(..) of one list belongs to the entries of THAT list: a later list without one resolves as if it stood alone
    for first, second, item in [("Clone, bound(T: M1, ..)", "Default", "struct X<T>(Option<T>);"), ("Debug, bound(T: M1)", "Clone, PartialEq", "struct X<T> { a: Vec<T> }"),
                                ("Clone, bound()", "Debug", "enum X<T> { A(T), B }"), ("PartialEq, bound(T: M1, ..)", "Hash(bound(T: M2, ..))", "struct X<T>(T);")]:
        for entry in ("attr", "derive"):
            def wh(lists, only=None):
                src = " ".join("#[derive_ex(%s)]" % l for l in lists[1:]) + " " + item
                r = ex.attr(lists[0], src) if entry == "attr" else ex.derive("#[derive_ex(%s)] %s" % (lists[0], src))
                if r["status"] != "ok" or r.get("items") is None:
                    return None
                return [(i.get("trait") or i["canon"][:60], sorted(BF.norm(p) for p in i.get("where", []))) for i in r["items"][(1 if entry == "attr" else 0):] if i["kind"] == "impl"]
            both, alone = wh([first, second]), wh([second])
            n += 2
            if both is None or alone is None or both[-len(alone):] != alone:
                ctx.violation("B:C04:shared-bound-of-earlier-list:%s|%s:%s:%s" % (first, second, entry, item), "the shared bound(..) of an earlier #[derive_ex(..)] list changes the where-clauses of a later list that has none",
                              {"layer": "B", "item": item, "lists": [first, second], "entry": entry, "impls_with_both_lists": both, "impls_of_second_list_alone": alone})
    return n


def run(ctx):
    ex = Expander()
    n, nontriv, samples = bounded(ctx, ex, 60 if ctx.quick else 3000)
    n += duplicates(ctx, ex)
    n += foreign_levels(ctx, ex)
    ex.close()
    g = glayer.run_g(ctx, G_UNITS)
    ctx.assumptions += [
        "layer G (proved for all assignments of bound(...) to all levels and every number of variants/fields): the whole resolution chain Bounds::from .. FieldEntry::push_bounds_to and the builders of Copy, Clone, Debug (struct+enum) and Default's field walk, against the reference walk of contracts/_boundspec.rs",
        "layer G assumptions: WhereClauseBuilder::new copies the declared where-clause (external, checked by layer B); GenericParamSet::contains_in_type == mentions (external visitor); HashMap::get as a partial map; structural Clone of syn types; R9: slice.iter().rev() yields the reversed literal",
        "also proved (unit cmp_bodies): the five comparison body builders and build_compare_op incl. the field-level interleaving of helper bounds with key/by selection (closure contracts restated in the loop invariants), for structs and enums of any size",
        "also proved (unit builders): build_binary_op / build_assign_op / build_unary_op (array-literal loops unrolled by rewrite R11; the assertion sits inside the per-form closure, so it holds for all owned/reference forms)",
        "not under contract (bounded only): build_default_for_enum/struct (and_then closure / filter_map().collect()), Bound::parse and structmeta parsing",
        "layer B: seeded random assignments through the real expander for every derivable trait (struct and enum), where-clauses compared as multisets with the reference of lib/boundfam.py",
    ]
    cov = {
        "obligations": g["obligations"], "discharged": g["discharged"],
        "checker_cmd": "verus build/g/{bounds,builders,cmp_bodies}.rs (--output-json --time)",
        "trusted_base": ["Verus 0.2026.09.13 / Z3", "contracts/_prelude.rs + _types.rs stand-ins"],
        "functions_under_contract": g["functions_under_contract"], "g_units": g["units"], "assumption_scan": g["assumption_scan"], "solver_ms": g["smt_ms"],
        "bounded": {"evaluations": n, "with_type_or_variant_level_bounds": nontriv},
        "evaluations": n, "distinct_nontrivial": nontriv,
        "rule": "random assignments of the six forms {absent, bound(), bound(P), bound(..), bound(P, ..), bound(T)} to every level of every placement; marker predicates unique per level",
        "samples": samples,
    }
    return ctx.finish(LEVEL, cov)


def replay(path):
    rep = json.load(open(path))
    print(json.dumps({k: v for k, v in rep.items() if k != "verifier_output"}, indent=1)[:3000])
    if rep.get("layer") == "G":
        print(rep.get("verifier_output", ""))
        if rep.get("counterexample_replay"):
            return replay(rep["counterexample_replay"])
        return 1
    if "item" in rep:
        ex = Expander()
        r = ex.attr(rep["args"], rep["item"]) if rep.get("entry", "attr") == "attr" else ex.derive("#[derive_ex(%s)] %s" % (rep["args"], rep["item"]))
        for it in r.get("items") or []:
            if it["kind"] == "impl":
                print("impl", it.get("trait"), "where", it.get("where"))
            elif it["kind"] == "compile_error":
                print("compile_error", it.get("msg"))
        ex.close()
    return 1

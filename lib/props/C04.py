"""C04: explicit bound(...) follows the documented nine-level priority."""
import random, json
import boundfam as BF, glayer
from common import Expander

LEVEL = "proof"
G_UNITS = {}


def bounded(ctx, ex, per_trait):
    rng = random.Random(ctx.seed + 4)
    n = nontriv = 0
    samples = []
    fails = {}
    for is_enum in (False, True):
        for trait in (BF.ENUM_TRAITS if is_enum else BF.STRUCT_TRAITS):
            k = per_trait if trait in BF.ENUM_TRAITS else max(per_trait // 6, 8)
            for i in range(k):
                prog = BF.random_prog(rng, trait, is_enum)
                entry = "attr" if i % 2 == 0 else "derive"
                if trait in ("Default",) and is_enum:
                    pass
                ok, d = BF.check_prog(ex, prog, entry)
                n += 1
                used = sum(1 for s in prog.type_slots if s.assign != "absent")
                if used or any(s.assign != "absent" for v in prog.variants for s in v[2]):
                    nontriv += 1
                if not ok:
                    key = "B:C04:%s:%s:%s" % (trait, "enum" if is_enum else "struct", d["problem"][:40])
                    fails.setdefault(key, []).append(d)
                elif len(samples) < 4 and used >= 2:
                    samples.append(d)
    for key, ds in fails.items():
        ctx.violation(key, "%s (%d inputs, first: %s)" % (ds[0]["problem"], len(ds), ds[0]["item"][:200]), dict(ds[0], layer="B", failing_inputs=len(ds)))
    return n, nontriv, samples


def run(ctx):
    ex = Expander()
    n, nontriv, samples = bounded(ctx, ex, 60 if ctx.quick else 3000)
    ex.close()
    cov = {"evaluations": n, "distinct_nontrivial": nontriv, "rule": "random assignments of the six forms to every level; non-trivial = some type/variant level carries a bound", "samples": samples,
           "explanation": "bounded"}
    return ctx.finish("other", cov)


def replay(path):
    rep = json.load(open(path))
    print(json.dumps({k: v for k, v in rep.items() if k != "verifier_output"}, indent=1)[:3000])
    if "item" in rep:
        ex = Expander()
        r = ex.attr(rep["args"], rep["item"]) if rep.get("entry", "attr") == "attr" else ex.derive("#[derive_ex(%s)] %s" % (rep["args"], rep["item"]))
        for it in r.get("items") or []:
            if it["kind"] == "impl":
                print("impl", it.get("trait"), "where", it.get("where"))
            elif it["kind"] == "compile_error":
                print("compile_error", it.get("msg"))
        ex.close()
    return 1

"""C14: the item is re-emitted unchanged apart from derive_ex's own attributes."""
import random, json, re
import itemgen as G, refmodel as R, glayer
from common import Expander

LEVEL = "exploration"
G_UNITS = {"kinds": ["HelperAttributeKinds::is_match_cmp_attr", "HelperAttributeKinds::extend", "HelperAttributeKinds::without_derive_ex", "HelperAttributeKinds::new"], "implitem": ["is_root_derive_ex_attr"]}


def norm(ex, text):
    r = ex.lex(text)
    if r["status"] != "ok":
        return None
    return r["canon"]


def check_one(ctx, ex, it, derived, extra_args="", expect_error=False, tag="", list_ok=True):
    """list_ok: the trait list itself is well-formed (known traits, parsable arguments), so the macro knows which helper attributes belong to
    the traits being derived even when derivation then fails"""
    src = it.render()
    owned = G.owned_names(derived)
    args = ", ".join(derived) + extra_args
    r = ex.attr(args, src)
    key = "B:C14:%s:%s" % (args, re.sub(r"\s+", " ", src)[:300])
    rep = {"layer": "B", "args": args, "item": src, "derived": derived}
    if r["status"] != "ok" or not r.get("items"):
        ctx.violation(key, "expansion %s / output is not a sequence of items" % r["status"], dict(rep, result=r))
        return False
    first = r["items"][0]["canon"]
    errs = [i for i in r["items"] if i["kind"] == "compile_error"]
    whole_failed = bool(errs) and not any(i["kind"] == "impl" for i in r["items"]) and len(r["items"]) == 2
    if whole_failed:
        # derivation failed as a whole: the item with all foreign content must still be there (helper attributes may or may not have been consumed)
        exp = norm(ex, it.render(lambda a: a.name is None))
        st = ex.call("strip", ", ".join(G.HELPER_NAMES + ["derive_ex"]), r["items"][0]["tokens"])
        got = st.get("canon")
        if got != exp:
            ctx.violation(key, "derivation failed and the re-emitted item lost or changed foreign content", dict(rep, expected=exp, got=first, error=errs[0].get("msg")))
            return False
        if list_ok:
            # the list was understood: exactly the owned attributes are gone (a leftover helper attribute would cascade into
            # `cannot find attribute` errors next to the real one)
            exp2 = norm(ex, it.render(lambda a: a.name is None or a.name not in owned))
            if first != exp2:
                ctx.violation(key, "derivation failed after the trait list was read, yet the re-emitted item is not the input minus the attributes owned by %s" % sorted(owned),
                              dict(rep, expected=exp2, got=first, error=errs[0].get("msg")))
                return False
        return True
    exp = norm(ex, it.render(lambda a: a.name is None or a.name not in owned))
    if first != exp:
        ctx.violation(key, "re-emitted item differs from the input minus the attributes owned by the derived traits %s" % sorted(owned), dict(rep, expected=exp, got=first))
        return False
    return True


class ItemStripper:
    @staticmethod
    def strip(tokens):
        """remove `# [name ...]` groups for helper names from a proc_macro2-printed token string (bracket matching)"""
        out, i = [], 0
        names = set(G.HELPER_NAMES + ["derive_ex"])
        toks = tokens
        while i < len(toks):
            m = re.match(r"#\s*\[\s*(\w+)", toks[i:])
            if m and m.group(1) in names:
                j = toks.index("[", i)
                depth = 0
                k = j
                while True:
                    if toks[k] == "[":
                        depth += 1
                    elif toks[k] == "]":
                        depth -= 1
                        if depth == 0:
                            break
                    k += 1
                i = k + 1
                continue
            out.append(toks[i])
            i += 1
        return "".join(out)


def error_inputs(ctx, ex, rng, n):
    """inputs on which derivation errors: the item must survive"""
    cnt = 0
    for i in range(n):
        it, derived = G.random_item(rng)
        mode = i % 5
        if mode == 0 and i % 2 and it.is_enum:
            # a struct-only trait on an enum: the list is fine, the entry fails; helper attributes of the other listed traits are still owned
            ok = check_one(ctx, ex, it, derived + [rng.choice(["Add", "SubAssign", "Neg", "Deref", "DerefMut", "Not", "Shl"])])
        elif mode == 0:
            ok = check_one(ctx, ex, it, derived + ["NoSuchTrait"], list_ok=False)
        elif mode == 1 and not it.is_enum:
            it2, _ = G.random_item(rng, derived=["Deref"])
            it2.variants[0].fields = it2.variants[0].fields * 2 if it2.variants[0].fields else it2.variants[0].fields
            ok = check_one(ctx, ex, it2, ["Deref"])
        elif mode == 2:
            it.attrs.append(G.Attr("#[ord(ignore)]", "ord"))
            ok = check_one(ctx, ex, it, derived + (["Ord"] if "Ord" not in derived else []))
        elif mode == 3:
            it.attrs.append(G.Attr("#[debug(ignore)]", "debug")); it.attrs.append(G.Attr("#[debug(ignore)]", "debug"))
            ok = check_one(ctx, ex, it, derived + (["Debug"] if "Debug" not in derived else []))
        else:
            ok = check_one(ctx, ex, it, derived, extra_args=", 123 456", list_ok=False)
        cnt += 1
    return cnt


def impl_items(ctx, ex):
    n = 0
    for vis_attr in ["", "#[allow(unused)] ", "/// doc\n #[cfg(all())] "]:
        for hdr in ["impl core::ops::Add<X> for X", "impl<T: Clone> ::core::ops::Sub<&X<T>> for X<T> where T: Copy", "impl<'a> core::ops::Mul<X> for &X"]:
            src = "%s%s { type Output = u8; #[inline] fn %s(self, rhs: %s) -> u8 { /* c */ 1 + 2 } }" % (vis_attr, hdr, {"Add": "add", "Sub": "sub", "Mul": "mul"}[re.search(r"ops::(\w+)", hdr).group(1)], "X")
            op = re.search(r"ops::(\w+)", hdr).group(1)
            r = ex.attr(op, src)
            n += 1
            exp = norm(ex, src)
            if r["status"] != "ok" or not r.get("items") or r["items"][0]["canon"] != exp:
                ctx.violation("B:C14:impl:%s" % src[:80], "impl item not re-emitted unchanged", {"layer": "B", "args": op, "item": src, "result": r, "expected": exp})
    # recorded finding (two hunts): a mistake in the trait LIST itself (unknown trait) is answered before the macro knows which traits are
    # derived: the helper attributes of the well-formed entries stay on the re-emitted item and cascade into "cannot find attribute" errors
    src = "#[repr(C)] pub struct X { #[eq(key = $.len())] pub v: String, #[hash(ignore)] pub w: u8 }"
    r = ex.attr("PartialEq, Eq, Hash, Serialize", src)
    n += 1
    want = norm(ex, "#[repr(C)] pub struct X { pub v: String, pub w: u8 }")
    its = r.get("items") or []
    if r["status"] != "ok" or len(its) < 2 or its[0]["canon"] != want:
        ctx.violation("B:C14:unknown-trait-in-list:#[derive_ex(PartialEq, Eq, Hash, Serialize)] " + src, "one mistake in the trait list: the item is re-emitted with the helper attributes of the other (well-formed) entries still on it - each of them cascades into `cannot find attribute`",
                      {"layer": "B", "args": "PartialEq, Eq, Hash, Serialize", "item": src, "expected_item": want, "got_item": its[0]["canon"] if its else None})
    # owned helper names written in name-value form (`#[default = 5]`): refused, and - being derive_ex's own - not left on the re-emitted item
    for args, src, stripped in [("Default", "struct X { #[default = 5] a: u8, /// doc\n b: u8 }", "struct X { a: u8, /// doc\n b: u8 }"),
                                ("Debug, Clone", "#[debug = \"x\"] enum X { A, #[debug = 1] B(#[debug = 2] u8) }", "enum X { A, B(u8) }"),
                                ("PartialEq, Hash", "struct X(#[eq = 1] u8, #[hash = 2] #[doc = \"d\"] u8);", "struct X(u8, #[doc = \"d\"] u8);")]:
        r = ex.attr(args, src)
        n += 1
        its = r.get("items") or []
        if r["status"] != "ok" or len(its) < 2 or its[0]["canon"] != norm(ex, stripped) or not any(i["kind"] == "compile_error" for i in its[1:]):
            ctx.violation("B:C14:name-value-helper:%s:%s" % (args, src), "an owned helper attribute written as `name = value` must be refused and removed from the re-emitted item",
                          {"layer": "B", "args": args, "item": src, "expected_item": norm(ex, stripped), "got": [i["canon"][:200] for i in its]})
    # error paths of impl items: the impl - with every foreign attribute, in order - is still emitted next to the compile error
    body = "{ type Output = X; #[inline] fn add(self, rhs: X) -> X { X(self.0 + rhs.0) } }"
    for pre, sib, post, args in [("/// doc\n #[allow(unused)] ", "#[derive_ex]", " #[cfg(all())] ", "Add"), ("#[doc = \"a\"] ", "#[derive_ex = 1]", "", "Add"), ("", "#[derive_ex::derive_ex]", " #[allow(dead_code)] /// d\n ", "AddAssign"),
                                 ("#[allow(unused)] ", "#[derive_ex(NoSuch)]", " /// tail\n ", "Add"), ("/// only foreign\n #[must_use] ", "", "", "Sub"), ("#[allow(unused)] ", "#[derive_ex(AddAssign)]", " /// between\n ", "Add, , bad")]:
        src = "%s%s%simpl core::ops::Add<X> for X %s" % (pre, sib, post, body)
        want = norm(ex, "%s%simpl core::ops::Add<X> for X %s" % (pre, post, body))
        r = ex.attr(args, src)
        n += 1
        its = r.get("items") or []
        ok = r["status"] == "ok" and len(its) >= 2 and its[0]["canon"] == want and any(i["kind"] == "compile_error" for i in its[1:])
        if not ok:
            ctx.violation("B:C14:impl-error:%s:%s" % (args, src[:90]), "derivation on an impl item fails, but the impl is not re-emitted with all its foreign attributes next to the error",
                          {"layer": "B", "args": args, "item": src, "expected": want, "got": its[0]["canon"] if its else None, "result": r if not its else None})
    return n


def run(ctx):
    ex = Expander()
    rng = random.Random(ctx.seed + 14)
    n = 3000 if ctx.quick else 100000
    ok = nontriv = 0
    samples = []
    for i in range(n):
        it, derived = G.random_item(rng)
        if check_one(ctx, ex, it, derived):
            ok += 1
        helper = sum(1 for a in it.attrs if a.name) + sum(1 for v in it.variants for a in v.attrs if a.name) + sum(1 for v in it.variants for f in v.fields for a in f.attrs if a.name)
        if helper:
            nontriv += 1
            if len(samples) < 3:
                samples.append({"args": ", ".join(derived), "item": it.render()})
        if len(ctx.violations) > 30:
            break
    ne = error_inputs(ctx, ex, rng, 200 if ctx.quick else 5000)
    ni = impl_items(ctx, ex)
    ex.close()
    g = glayer.run_g(ctx, G_UNITS)
    ctx.assumptions += [
        "bounded stand-in carries this property: remove_attrs (Vec::retain over a closure), is_match (string dispatch), build_by_item_* (iter_mut) and lib.rs::build are outside Verus' dialect and Kani cannot run syn code (ICE); they are executed through the in-process expander on a seeded family of items",
        "contract core (layer G, proved): HelperAttributeKinds::{extend,is_match_cmp_attr,without_derive_ex}: the set of owned comparison helper names is exactly {a : some derived trait is affected by a}",
        "token equality is judged on proc_macro2's fallback printer output of both sides",
    ]
    cov = {"evaluations": n + ne + ni, "distinct_nontrivial": nontriv,
           "rule": "seeded random items (foreign attributes incl. doc comments/repr/cfg_attr/path attributes, all visibility forms, generics with defaults, where-clauses, discriminants, helper attributes of derived and of non-derived traits) x random trait lists; non-trivial = the item carries at least one helper-named attribute; plus %d error-producing inputs and %d impl items" % (ne, ni),
           "samples": samples, "g": {"obligations": g["obligations"], "discharged": g["discharged"], "functions_under_contract": g["functions_under_contract"], "units": g["units"]}}
    return ctx.finish(LEVEL, cov)


def replay(path):
    rep = json.load(open(path))
    print(json.dumps({k: v for k, v in rep.items() if k not in ("result", "verifier_output")}, indent=1)[:4000])
    if rep.get("layer") == "G":
        print(rep.get("verifier_output", ""))
        return 1
    ex = Expander()
    r = ex.attr(rep["args"], rep["item"])
    print("first item on the current tree:", (r.get("items") or [{}])[0].get("tokens"))
    ex.close()
    return 1

"""C19: dump shows exactly the code that would have been generated."""
import random, json, re
import itemgen as G, glayer
from common import Expander
from props.C15 import per_trait, ENTRY_ITEMS

LEVEL = "other"
G_UNITS = {"entry": ["DeriveEntry::apply_dump", "DeriveEntry::from_args_list"], "implitem": ["Args::from_attr_args"]}


def canon_of(ex, text):
    r = ex.lex(text)
    return r.get("canon") if r["status"] == "ok" else None


def dumped_payload(ex, item):
    msg = item.get("msg", "")
    if not msg.startswith("dump:\n"):
        return None
    return canon_of(ex, msg[len("dump:\n"):])


LITERAL_ITEMS = [
    (["Clone", "Default"], 'struct X { #[default("host=localhost; port=80")] a: String, #[default("{ } { }  ;  }")] b: &\'static str, c: u8 }'),
    (["Default", "Debug"], '#[default(X(b"; } ; ", r#"a; b } c"#, \'}\'))] struct X(&\'static [u8; 6], &\'static str, char);'),
    (["PartialEq", "Eq", "Hash"], 'struct X { #[eq(key = $.trim_matches("; } "))] a: String, #[eq(key = $.split("} ").count())] b: String }'),
    (["PartialEq", "Clone"], 'enum X { A(#[partial_ord(key = ($, "x;  y"))] u8), B { #[partial_eq(by = |a: &String, b: &String| a.replace("; ", ";") == b.replace("} ", "}"))] s: String, t: u8 } }'),
    (["Clone", "Debug"], '#[expect(dead_code, reason = "kept; for } later")] struct X { a: u8 }'),
    (["Debug", "Default"], 'enum X { #[default] A { #[default("; ")] r#where: &\'static str, #[debug(ignore)] k: u8 }, B }'),
]


def run(ctx):
    ex = Expander()
    rng = random.Random(ctx.seed + 19)
    n = 600 if ctx.quick else 20000
    evals = nontriv = 0
    samples = []
    def inputs():
        # literals whose text looks like code punctuation: the dump is a token stream, the text of a literal must come through unchanged
        for derived, src in LITERAL_ITEMS:
            yield list(derived), src
        for k in range(n):
            it, derived = G.random_item(rng, helper_for_underived=False)
            yield list(dict.fromkeys(derived)), it.render()
    for k, (derived, src) in enumerate(inputs()):
        base = ex.attr(", ".join(derived), src)
        evals += 1
        if base["status"] != "ok" or base.get("items") is None:
            continue
        items = base["items"]
        gen = [i["canon"] for i in items[1:]]
        pt = per_trait(gen, derived)
        if pt is None or any("compile_error" in x for e in pt for x in e):
            continue     # programs whose plain expansion errors are C05/C16 material
        key0 = "B:C19:%s:%s" % (", ".join(derived), re.sub(r"\s+", " ", src)[:200])
        rep = {"layer": "B", "item": src, "derived": derived}
        # per-trait dump, for every position
        for di, t in enumerate(derived):
            args = ", ".join((x + "(dump)") if j == di else x for j, x in enumerate(derived))
            r = ex.attr(args, src)
            evals += 1
            nontriv += 1
            if r["status"] != "ok" or r.get("items") is None:
                ctx.violation(key0 + ":dump@" + t, "expansion with dump failed", dict(rep, args=args, result=r))
                continue
            its = r["items"]
            if its[0]["canon"] != items[0]["canon"]:
                ctx.violation(key0 + ":dump@" + t, "dump changed the re-emitted item", dict(rep, args=args))
            # expected sequence: entries before/after unchanged, entry di replaced by one compile_error carrying its tokens
            exp_before = [x for e in pt[:di] for x in e]
            exp_after = [x for e in pt[di + 1:] for x in e]
            got = its[1:]
            ok = len(got) == len(exp_before) + 1 + len(exp_after)
            if ok:
                ok = [g["canon"] for g in got[:len(exp_before)]] == exp_before and [g["canon"] for g in got[len(exp_before) + 1:]] == exp_after
            if not ok:
                ctx.violation(key0 + ":dump@" + t, "per-trait dump touched the impls of other traits", dict(rep, args=args, expected_before=exp_before, expected_after=exp_after, got=[g["canon"] for g in got]))
                continue
            ce = got[len(exp_before)]
            payload = dumped_payload(ex, ce) if ce["kind"] == "compile_error" else None
            want = canon_of(ex, " ".join(i["tokens"] for i in items[1 + len(exp_before):1 + len(exp_before) + len(pt[di])]))
            if payload is None or payload != want:
                ctx.violation(key0 + ":dump@" + t, "the dumped text is not, token for token, the code generated without dump", dict(rep, args=args, dumped=payload, generated=want, msg=ce.get("msg", "")[:2000]))
        # shared dump
        args = ", ".join(derived) + ", dump"
        r = ex.attr(args, src)
        evals += 1
        if r["status"] == "ok" and r.get("items") is not None:
            got = r["items"][1:]
            if len(got) != len(derived) or any(g["kind"] != "compile_error" for g in got) or r["items"][0]["canon"] != items[0]["canon"]:
                ctx.violation(key0 + ":shared", "shared dump must replace every entry by one compile error and leave the item alone", dict(rep, args=args, got=[g["canon"][:200] for g in got]))
            else:
                for di, g_ in enumerate(got):
                    want = canon_of(ex, " ".join(pt_tokens(items, pt, di)))
                    if dumped_payload(ex, g_) != want:
                        ctx.violation(key0 + ":shared@" + derived[di], "shared dump: dumped text differs from the generated code", dict(rep, args=args, dumped=dumped_payload(ex, g_), generated=want))
        else:
            ctx.violation(key0 + ":shared", "expansion with shared dump failed", dict(rep, args=args, result=r))
        # shared dump over entries that carry argument lists of their own (`Trait()`, `Trait(bound(..))`: same code as the bare trait)
        args = ", ".join(t + rng.choice(["", "()", "(bound(..))", "()"]) for t in derived) + ", dump"
        r = ex.attr(args, src) if k % 2 else ex.derive("#[derive_ex(%s)] %s" % (args, src))
        evals += 1
        nontriv += 1
        if r["status"] == "ok" and r.get("items") is not None:
            got = r["items"][(1 if k % 2 else 0):]
            if len(got) != len(derived) or any(g["kind"] != "compile_error" for g in got):
                ctx.violation(key0 + ":shared-args", "shared dump must apply to every entry of its list, also those with their own argument list", dict(rep, args=args, got=[g["canon"][:200] for g in got]))
            else:
                for di, g_ in enumerate(got):
                    want = canon_of(ex, " ".join(pt_tokens(items, pt, di)))
                    if dumped_payload(ex, g_) != want:
                        ctx.violation(key0 + ":shared-args@" + derived[di], "shared dump: dumped text differs from the generated code", dict(rep, args=args, dumped=dumped_payload(ex, g_), generated=want))
        else:
            ctx.violation(key0 + ":shared-args", "expansion with shared dump failed", dict(rep, args=args, result=r))
        if len(samples) < 2:
            samples.append({"item": src, "args": ", ".join(derived)})
        if len(ctx.violations) > 20:
            break
    # impl items
    ni = 0
    for hdr, body, ops in [("impl core::ops::Add<X> for X", "type Output = X; fn add(self, rhs: X) -> X { X(self.0 + rhs.0) }", ["Add", "AddAssign", "Add, AddAssign"]),
                           ("impl<T: Clone> core::ops::Sub<&X<T>> for &X<T> where T: Copy", "type Output = X<T>; fn sub(self, rhs: &X<T>) -> X<T> { self.clone() }", ["Sub", "SubAssign", "Sub, SubAssign"]),
                           ("impl core::ops::MulAssign<u8> for X", "fn mul_assign(&mut self, rhs: u8) { self.0 *= rhs }", ["Mul"])]:
        src = "%s { %s }" % (hdr, body)
        for op in ops:
            a = ex.attr(op, src)
            d = ex.attr(op + ", dump", src)
            ni += 1
            okk = a["status"] == "ok" and d["status"] == "ok" and a.get("items") and d.get("items") and len(d["items"]) == 2 and d["items"][1]["kind"] == "compile_error" and d["items"][0]["canon"] == a["items"][0]["canon"]
            if okk:
                want = canon_of(ex, " ".join(i["tokens"] for i in a["items"][1:]))
                okk = dumped_payload(ex, d["items"][1]) == want
            if not okk:
                ctx.violation("B:C19:impl:%s:%s" % (op, hdr), "dump on an impl item does not show the generated code / changes the item", {"layer": "B", "item": src, "args": op + ", dump", "plain": a, "dump": d})
    # impl items whose request is split over sibling attributes and that carry foreign attributes: `dump` is shared by the list it is
    # written in - the forms requested by that list are shown, token for token, the forms of the other list are still generated, and the
    # item comes back exactly as without dump (no derive_ex attribute left on it)
    body = "impl core::ops::Add<X> for X { type Output = X; fn add(self, rhs: X) -> X { X(self.0 + rhs.0) } }"
    nb = ex.attr("Add", body)
    nbin = len(nb.get("items") or [None]) - 1        # number of derived binary forms (they come first in the merged expansion)
    for first, sib, first_d, sib_d, dumped in [("Add", "AddAssign", "Add, dump", "AddAssign", "binary"), ("Add", "AddAssign", "Add", "AddAssign, dump", "assign"), ("AddAssign", "Add", "AddAssign, dump", "Add", "assign"),
                                               ("Add", "AddAssign", "Add, dump", "AddAssign, dump", "all"), ("Add, AddAssign", None, "Add, AddAssign, dump", None, "all"), ("Add", None, "Add, dump", None, "all"),
                                               ("AddAssign", "Add", "AddAssign", "Add, dump", "binary")]:
        for pre, post in (("", ""), ("/// doc\n #[allow(unused)] ", ""), ("", "#[cfg(all())] /// tail\n "), ("#[doc = \"a\"] ", "#[doc = \"b\"] ")):
            mk = lambda s_: "%s%s%s%s" % (pre, ("#[derive_ex(%s)] " % s_) if s_ else "", post, body)
            a = ex.attr(first, mk(sib))
            d = ex.attr(first_d, mk(sib_d))
            ni += 1
            okk = a["status"] == "ok" and d["status"] == "ok" and a.get("items") and d.get("items") and nbin > 0 and d["items"][-1]["kind"] == "compile_error" and d["items"][0]["canon"] == a["items"][0]["canon"] \
                and "derive_ex" not in d["items"][0]["canon"] and not any(i["kind"] == "compile_error" for i in a["items"])
            if okk:
                gen = a["items"][1:]
                shown, kept = {"binary": (gen[:nbin], gen[nbin:]), "assign": (gen[nbin:], gen[:nbin]), "all": (gen, [])}[dumped]
                okk = [i["canon"] for i in d["items"][1:-1]] == [i["canon"] for i in kept] and dumped_payload(ex, d["items"][-1]) == canon_of(ex, " ".join(i["tokens"] for i in shown))
            if not okk:
                ctx.violation("B:C19:impl-siblings:%s|%s:%s" % (first_d, sib_d, (pre + "|" + post).strip()), "dump on an impl item with sibling / foreign attributes: the forms of the dumping list are not shown token for token, the forms of the other list are not generated, or the item changed",
                              {"layer": "B", "item": mk(sib_d), "args": first_d, "plain_item": mk(sib), "plain_args": first, "expected_dumped": dumped, "plain": a, "dump": d})
    ex.close()
    g = glayer.run_g(ctx, G_UNITS)
    ctx.assumptions += [
        "contract core (layer G, Verus): DeriveEntry::from_args_list: one entry per listed trait in list order, entry.dump == (shared dump of its own list || its own dump) -- so a dump never leaks to other entries; DeriveEntry::apply_dump returns the generated stream unchanged when dump is off, an error stream when dump is on or generation failed; format!(\"dump:\\n{ts}\") and Error::to_compile_error are out of reach (message text is not modelled)",
        "the token-for-token claim is decided by the bounded layer: message payload re-lexed with proc_macro2 and compared (canonical token rendering) with the undumped expansion, for every trait position of every generated program, per-trait and shared dump, and impl items",
    ]
    cov = {"explanation": "apply_dump under contract (Verus) + bounded metamorphic check of the dump payload through the real expander",
           "evaluations": evals + ni, "distinct_nontrivial": nontriv, "rule": "seeded items x every position of the trait list dumped; non-trivial = a dumped expansion compared token for token", "samples": samples,
           "obligations": g["obligations"], "discharged": g["discharged"], "functions_under_contract": g["functions_under_contract"]}
    return ctx.finish(LEVEL, cov)


def pt_tokens(items, pt, di):
    start = 1 + sum(len(e) for e in pt[:di])
    return [i["tokens"] for i in items[start:start + len(pt[di])]]


def replay(path):
    rep = json.load(open(path))
    print(json.dumps({k: v for k, v in rep.items() if k != "verifier_output"}, indent=1)[:5000])
    return 1

"""C16: expansion is total and deterministic."""
import random, json, re, os, glob, copy
import itemgen as G, refmodel as R, glayer, gx
from common import Expander, REPO, BUILD

LEVEL = "other"
G_UNITS = {"cmp_flags": ["HelperAttributesForCompareOp::is_reverse"], "misc": ["build_deref_for_struct"], "implitem": ["to_ref_elem", "to_rhs"]}


def seed_corpus():
    """every derive_ex item of the test-suite and the documentation: (args, item text)"""
    seeds = []
    files = glob.glob(os.path.join(REPO, "derive-ex-tests", "tests", "*.rs")) + glob.glob(os.path.join(REPO, "derive-ex-tests", "tests", "compile_fail", "*", "*.rs")) + [os.path.join(REPO, "doc", "derive_ex.md")]
    for f in files:
        text = open(f).read()
        mask = gx.code_mask(text)
        for m in re.finditer(r"#\[derive_ex\(", text):
            if not mask[m.start()]:
                continue
            ob = m.end() - 1
            try:
                cb = gx.match_close(text, mask, ob)
                rb = gx.match_close(text, mask, m.start() + 1)
            except Exception:
                continue
            args = text[ob + 1:cb]
            # item: up to the end of the first struct/enum/impl item after the attribute
            k = re.compile(r"\b(struct|enum|impl)\b").search(text, rb)
            if not k:
                continue
            j = k.end()
            try:
                while not (mask[j] and text[j] in "{;"):
                    if mask[j] and text[j] == "(":
                        j = gx.match_close(text, mask, j)
                    j += 1
                end = gx.match_close(text, mask, j) + 1 if text[j] == "{" else j + 1
                if text[j] == "{" and text[k.start():k.end()] == "struct":
                    pass
            except Exception:
                continue
            item = text[rb + 1:end]
            if text[k.start():k.end()] == "struct" and text[j] == "(":
                pass
            seeds.append((args, re.sub(r"(?m)^\s*# ", "", item)))
    return seeds


WEIRD_ARGS = ["Clone(bound(T, U, Vec<T>, Option<U>, Box<T>, [U; 2]))", "Clone, Debug, bound(U, T, Vec<U>, Vec<T>, Option<T>, (T, U))", "PartialEq(bound(A, B, C, D, E, F)), Hash(bound(F, E, D, C, B, A))",
              "", "Clone, Clone", "NoSuch", "Clone(", "Clone()", "Clone(bound())", "Clone(bound(..), dump)", "bound(T)", "dump", "Clone, bound(T: Copy, .., Vec<T>)", "Ord(bound(=))",
              "clone", "Add, AddAssign, Neg, Not", "Deref, DerefMut", "Default, Debug, Hash", "::core::clone::Clone", "Clone Copy", "Clone,, Copy", "Clone = 1", "'a", "1", "\"Clone\"",
              "Copy, Clone, Debug, Default, Ord, PartialOrd, Eq, PartialEq, Hash, Deref, DerefMut, Add, Sub, Mul, Div, Rem, BitAnd, BitOr, BitXor, Shl, Shr, Neg, Not"]
WEIRD_ATTRS = ["#[debug(bound(T, U, V, W, X1, X2))]", "#[ord(bound(A, B, C, D, E))]", "#[default(_, bound(T, U, V, W, Y))]", "#[derive_ex(Clone(bound(A, B, C, D, E)), bound(F, G, H, I, J))]", "#[hash(bound(P, Q, R, S, T2), ignore)]",
               "#[ord]", "#[ord = 3]", "#[ord()]", "#[ord(key)]", "#[ord(key = )]", "#[ord(by = |a, b| a.cmp(b), reverse, ignore)]", "#[eq(key = $$)]", "#[hash(by = f, key = $ as u8)]",
               "#[debug(transparent)]", "#[debug(transparent, ignore)]", "#[debug = \"x\"]", "#[default]", "#[default()]", "#[default(_)]", "#[default(,)]", "#[default(1, 2)]", "#[default(bound(T))]",
               "#[derive_ex(Clone)]", "#[derive_ex(bound())]", "#[derive_ex]", "#[derive_ex = 1]", "#[partial_eq(bound(..), bound())]", "#[ord(unknown)]", "#[ord(reverse(1))]", "#[partial_ord(ignore = true)]"]
OTHER_ITEMS = ["union X { a: u8, b: u16 }", "fn f() {}", "trait T {}", "mod m {}", "type A = u8;", "impl X {}", "impl !Send for X {}", "impl core::ops::Add for X {}", "impl Add<u8, u8> for X { type Output = X; }",
               "impl<T> core::ops::Add<T> for X<T> { type Output = Self; fn add(self, r: T) -> Self { self } }", "impl core::ops::AddAssign for X { fn add_assign(&mut self, r: X) {} }", "impl core::ops::Neg for X { type Output = X; fn neg(self) -> X { self } }",
               "struct X();", "struct X {}", "enum X {}", "struct r#struct { r#type: u8, r#fn: u8 }", "enum r#enum { r#as(u8), r#dyn { r#in: u8 } }", "struct X<'a, T: ?Sized + 'a>(&'a T);", "struct X(u8, u8, u8, u8, u8, u8, u8, u8, u8, u8, u8, u8);",
               "enum X { A = 1, B = isize::MAX }", "#[default(match 0u8 { _ => X(1) } + X(2))] struct X(u8);", "#[default(if true { 1 } else { 2 } == 1)] enum X { A, B }", "#[default({ X(1) } + X(2))] struct X(u8);",
               "struct X(#[partial_eq(key = len.$())] String);", "struct X(#[ord(key = ::$.len())] String);", "struct X(#[eq(key = S { $ })] String);", "struct X(#[hash(key = Default.$)] String);", "struct X(#[partial_eq(by = $)] u8);", "#[default(let x = 1)] struct X(u8);",
               "struct X(dyn Tr + Send);", "struct X<'a>(dyn Tr + Send + 'a);", "struct X { a: u32, t: dyn Tr + Send }", "struct X(impl Tr + Send);", "struct X(dyn Tr);",
               "impl Add<dyn A + B> for X { type Output = X; fn add(self, r: dyn A + B) -> X { self } }", "impl Sub<i32> for dyn A + Send { type Output = i32; fn sub(self, r: i32) -> i32 { r } }", "impl Add<X> for dyn* A + B { type Output = X; fn add(self, r: X) -> X { r } }", "impl Sub<dyn* A + B> for &X { type Output = X; fn sub(self, r: dyn* A + B) -> X { X } }", "impl Sub<&Self> for dyn* A { type Output = Self; fn sub(self, r: &Self) -> Self { self } }",
               "impl Add<> for X { type Output = X; fn add(self, r: X) -> X { self } }", "impl Add for X { #![allow(clippy::suspicious_arithmetic_impl)] type Output = X; fn add(self, r: X) -> X { self } }",
               "#[allow(unused)] impl SubAssign<&X> for X { #![deny(unused)] #![doc = \"d\"] fn sub_assign(&mut self, r: &X) {} }", "#[expect(unused)] #[forbid(unsafe_code)] impl Shl<u8> for &X { #![warn(missing_docs)] type Output = X; fn shl(self, r: u8) -> X { X } }", "impl core::ops::Sub<> for &X { type Output = X; fn sub(self, r: &X) -> X { X } }", "impl Add<'a> for X { type Output = X; fn add(self, r: X) -> X { self } }", "impl Add<Output = X> for X { type Output = X; fn add(self, r: X) -> X { self } }", "struct X<const N: usize>([u8; N]);", "pub(in self) struct X;", "struct X where;", "struct X<T,>(T,);", "macro_rules! m { () => {} }", "struct X(#[cfg(any())] u8, u16);"]


def impl_items(rng, n):
    """syntactically valid operator impl items, including shapes rustc itself would reject later (`Self` inside the self type, missing
    Output, foreign items in the body): expansion must still terminate with items or a compile_error!"""
    SELF_TY = ["X", "dyn Tr + Send", "dyn* Tr + Send", "dyn* Tr", "&X", "&'a X", "X<T>", "&X<T>", "W<Self>", "Box<Self>", "(X, Self)", "[Self; 2]", "Self", "&Self", "<X as Tr>::A", "fn(Self) -> X", "dyn Tr<Self>", "X<{ 1 + 2 }>", "!", "()"]
    RHS = ["", "<dyn* Tr + Send>", "<>", "<'a>", "<Output = X>", "<{ 1 }>", "<dyn Tr + Send>", "<impl Tr + Tr2>", "<Self>", "<&Self>", "<u8>", "<&X>", "<Vec<Self>>", "<&'a Self>", "<Option<&Self>>", "<<Self as Tr>::A>", "<Self, Self>", "<[Self; 3]>"]
    OUT = ["type Output = Self;", "type Output = X;", "type Output = Option<Self>;", "", "type Output = <Self as Tr>::A;", "type Output = (Self, Self); type Other = u8;", "const C: u8 = 1;"]
    WH = ["", " where Self: Sized", " where Option<Self>: Sized, X: Tr<Self>", " where T: Copy", " where for<'b> &'b Self: Sized", " where"]
    GEN = ["", "<T>", "<'a>", "<'a, T: Tr<Self>>", "<const N: usize>", "<T: Copy, U>"]
    OPS = ["Add", "Sub", "Shl", "BitXor", "AddAssign", "ShlAssign", "Neg", "Not", "Clone", "Deref", "Index"]
    ARGS = ["Add", "AddAssign", "Add, AddAssign", "Sub, Shl", "ShlAssign", "Neg", "Clone", "Add, dump", "Add(dump)", "Add(bound(T))", "", "Sub, SubAssign, Sub"]
    out = []
    for _ in range(n):
        op = rng.choice(OPS)
        f = {"Add": "add", "Sub": "sub", "Shl": "shl", "BitXor": "bitxor", "AddAssign": "add_assign", "ShlAssign": "shl_assign", "Neg": "neg", "Not": "not", "Clone": "clone", "Deref": "deref", "Index": "index"}[op]
        rhs = "" if op in ("Neg", "Not", "Clone", "Deref") and rng.random() < 0.8 else rng.choice(RHS)
        body = rng.choice(["", "", "#![allow(unused)] ", "#![doc = \"inner\"] #![deny(clippy::all)] ", "#![cfg_attr(all(), allow(dead_code))] "]) + rng.choice(OUT) + " " + rng.choice(["fn %s(self, rhs: Self) -> Self { self }" % f, "fn %s(&mut self, rhs: Self) {}" % f, "fn %s(self) -> Self::Output { self }" % f, "", "fn %s(self, _: &Self) -> Self::Output { todo!() }" % f])
        item = "%simpl%s %s%s%s for %s%s { %s }" % (rng.choice(["", "", "unsafe ", "#[doc = \"x\"] ", "default "]), rng.choice(GEN), rng.choice(["", "", "core::ops::", "::core::ops::", "!"]), op, rhs, rng.choice(SELF_TY), rng.choice(WH), body)
        out.append((rng.choice(ARGS), item))
    return out


def mutate(rng, it, derived):
    it = copy.deepcopy(it)
    derived = list(derived)
    for _ in range(rng.randint(1, 4)):
        op = rng.randrange(9)
        vs = it.variants
        v = rng.choice(vs)
        if op == 0 and v.fields:
            v.fields.pop(rng.randrange(len(v.fields)))
        elif op == 1 and v.fields:
            v.fields.append(copy.deepcopy(rng.choice(v.fields)))
        elif op == 2 and it.is_enum and len(vs) > 0:
            vs.append(copy.deepcopy(v))
        elif op == 3 and it.is_enum and len(vs) > 0:
            vs.pop(rng.randrange(len(vs)))
            if not vs:
                break
        elif op == 4:
            tgt = rng.choice([it.attrs, v.attrs] + [f.attrs for f in v.fields])
            tgt.append(G.Attr(rng.choice(WEIRD_ATTRS), "x"))
        elif op == 5:
            tgt = rng.choice([it.attrs, v.attrs] + [f.attrs for f in v.fields])
            if tgt:
                tgt.append(copy.deepcopy(rng.choice(tgt)))
        elif op == 6:
            a, b = rng.choice([it.attrs, v.attrs]), rng.choice([f.attrs for f in v.fields] or [it.attrs])
            if a:
                b.append(a.pop(rng.randrange(len(a))))
        elif op == 7:
            derived = rng.sample(G.TRAITS_STRUCT, rng.randint(0, 5))
        elif op == 8:
            it.generics, it.where = rng.choice(G.GENERICS)
    return it, derived


def rustc_parses(text):
    """second opinion when syn cannot re-parse an output: rustc's own parser (syn rejects some forms rustc accepts, e.g. `where dyn A + B: T`)"""
    import subprocess, tempfile
    d = os.path.join(BUILD, "c16_parse")
    os.makedirs(d, exist_ok=True)
    f = os.path.join(d, "out.rs")
    open(f, "w").write(text)
    p = subprocess.run(["rustc", "-Zparse-crate-root-only", "--edition", "2021", "--crate-type", "lib", f], capture_output=True, text=True,
                       env=dict(os.environ, RUSTC_BOOTSTRAP="1"), cwd=d)
    return p.returncode == 0, p.stderr[:600]


def probe(ctx, ex, mode, args, item, stats):
    for entry in (("attr", "derive") if mode == "both" else (mode,)):
        if entry == "attr":
            call = lambda: ex.attr(args, item)
        else:
            call = lambda: ex.derive("#[derive_ex(%s)] %s" % (args, item))
        r1 = call()
        stats["n"] += 1
        key = "B:C16:%s:%s:%s" % (entry, args[:60], re.sub(r"\s+", " ", item)[:200])
        rep = {"layer": "B", "entry": entry, "args": args, "item": item}
        if r1["status"] == "lexerr":
            stats["unlexable"] += 1
            continue
        if r1["status"] in ("panic", "crash"):
            ctx.violation(key, "expansion %s: %s" % (r1["status"], r1.get("note")), rep)
            continue
        if r1.get("items") is None:
            # the attribute macro re-emits its input: output can only fail to parse if the input item itself is not an item
            if entry == "attr" and ex.lex(item).get("items") is None:
                stats["not_an_item"] += 1
                continue
            ok_rustc, perr = rustc_parses(r1.get("out") or "")
            if ok_rustc:
                stats["syn_stricter_than_rustc"] = stats.get("syn_stricter_than_rustc", 0) + 1
            else:
                ctx.violation(key, "output is neither well-formed items nor a compile_error! invocation (rustc: %s)" % perr.split("\n")[0], dict(rep, out=r1.get("out"), rustc=perr))
                continue
        if any(i["kind"] == "compile_error" for i in r1["items"]):
            stats["errors"] += 1
            if any(i["kind"] == "compile_error" and not i.get("msg") for i in r1["items"]):
                ctx.violation(key, "compile_error! without a message", dict(rep, out=r1.get("out")))
        r2 = call()
        if r2.get("out") != r1.get("out"):
            ctx.violation(key, "two expansions of the same input differ", dict(rep, first=r1.get("out"), second=r2.get("out")))


def run(ctx):
    ex = Expander()
    rng = random.Random(ctx.seed + 16)
    stats = {"n": 0, "unlexable": 0, "not_an_item": 0, "errors": 0}
    seeds = seed_corpus()
    for (args, item) in seeds:
        probe(ctx, ex, "both", args, item, stats)
        for w in rng.sample(WEIRD_ARGS, 3):
            probe(ctx, ex, "both", w, item, stats)
    for it in OTHER_ITEMS:
        for a in WEIRD_ARGS:
            probe(ctx, ex, "both", a, it, stats)
        for a in ("Clone", "Add", "Add, AddAssign", "Default, Debug", "Ord, PartialOrd, Eq, PartialEq, Hash", "Deref", "Neg", "Deref, DerefMut", "Sub, SubAssign", "Not, ShlAssign"):
            probe(ctx, ex, "both", a, it, stats)
    for (a, it) in impl_items(rng, 600 if ctx.quick else 20000):
        probe(ctx, ex, "attr", a, it, stats)
        stats["impl_items"] = stats.get("impl_items", 0) + 1
    n = 2500 if ctx.quick else 100000
    gen = []
    for k in range(n):
        if not gen or rng.random() < 0.3:
            base = G.random_item(rng)
            gen.append(base)
        else:
            base = rng.choice(gen[-50:])
        it, derived = mutate(rng, *base)
        if rng.random() < 0.1 and gen:
            # splice attributes between two items
            other = rng.choice(gen)[0]
            it.attrs = it.attrs + copy.deepcopy(other.attrs)
        args = ", ".join(derived) if rng.random() < 0.85 else rng.choice(WEIRD_ARGS)
        probe(ctx, ex, "both", args, it.render(), stats)
        if len(ctx.violations) > 30:
            break
    ex.close()
    g = glayer.run_g(ctx, G_UNITS)
    ctx.assumptions += [
        "contract core (layer G, Verus): panic freedom of the extracted functions holding the panic sites named by the property: unreachable!() in is_reverse (requires op is Ord|PartialOrd, established by its callers in the verified body builders) and unreachable!()/fields[0] in build_deref_for_struct",
        "everything else is bounded: structure-aware mutation of a seed corpus (every derive_ex item of the test-suite and docs + generator output + non-struct items + malformed argument lists) through the in-process expander under catch_unwind; output re-parsed with syn; expanded twice and compared; a process abort (stack overflow) is detected as `crash`",
        "termination: each call returned (no timeout observed); not proved",
        "determinism argument: hash containers in the expander are only used through get/contains/insert (mechanical scan of /repo/derive-ex/src for iteration over HashMap/HashSet: %s)" % scan_hash_iteration(),
    ]
    cov = {"explanation": "panic-freedom contracts on the named panic sites (Verus) + bounded mutation testing of totality/determinism through the real expander",
           "evaluations": stats["n"], "distinct_nontrivial": stats["errors"], "rule": "seed corpus x weird argument lists + structure-aware mutants; non-trivial = expansion answered with compile_error!",
           "samples": [{"args": a, "item": i[:200]} for a, i in seeds[:3]], "seeds_from_tests_and_docs": len(seeds), "stats": stats,
           "obligations": g["obligations"], "discharged": g["discharged"], "functions_under_contract": g["functions_under_contract"]}
    return ctx.finish(LEVEL, cov)


def scan_hash_iteration():
    bad = []
    for f in glob.glob(os.path.join(REPO, "derive-ex", "src", "**", "*.rs"), recursive=True):
        t = open(f).read()
        for m in re.finditer(r"\b(\w+)\.(iter|into_iter|keys|values|drain)\(\)", t):
            v = m.group(1)
            if re.search(r"\b%s\s*(:\s*Hash(Map|Set)|=\s*Hash(Map|Set)::)" % re.escape(v), t):
                bad.append("%s:%s" % (os.path.basename(f), m.group(0)))
        if re.search(r"for\s+\w+\s+in\s+&?self\.(items|idents)\b", t):
            bad.append(os.path.basename(f) + ": for over a hash container")
    return "none found" if not bad else "FOUND " + ", ".join(bad)


def replay(path):
    rep = json.load(open(path))
    print(json.dumps({k: v for k, v in rep.items() if k != "verifier_output"}, indent=1)[:4000])
    if rep.get("layer") == "B":
        ex = Expander()
        r = ex.attr(rep["args"], rep["item"]) if rep["entry"] == "attr" else ex.derive("#[derive_ex(%s)] %s" % (rep["args"], rep["item"]))
        print("on the current tree:", r.get("status"), r.get("note", ""), (r.get("out") or "")[:500])
        ex.close()
    return 1

"""C09: operators derived from a user impl forward to it faithfully."""
import random, itertools
import fam2, elayer as E, glayer

LEVEL = "proof"


def programs(ctx):
    rng = random.Random(ctx.seed + 9)
    out = []
    ops = fam2.BINOPS if not ctx.quick else ["Sub", "Shl", "Div"]
    i = 0
    for op in ops:
        for (bl, br) in itertools.product((False, True), repeat=2):
            for rhs_other in (False, True):
                for req in (("bin",), ("assign",), ("bin", "assign")):
                    if ctx.quick and rng.random() < 0.55:
                        continue
                    generic = (not rhs_other) and (i % 5 == 0)
                    out.append(fam2.c09_prog("p_%04d" % i, op, bl, br, rhs_other, req, generic=generic, bound_in_where=(i % 10 == 0), rhs_spelled_self=(i % 3 == 1),
                                             req_style=["list", "list_rev", "split", "split_rev"][(i // 2) % 4] if len(req) == 2 else "list"))
                    i += 1
        for br in (False, True):
            for rhs_other in (False, True):
                out.append(fam2.c09_prog("p_%04d" % i, op, False, br, rhs_other, ("bin",), base_assign=True))
                i += 1
            # generic OpAssign base whose bounds live in the where-clause (generics + where-clause must carry over to the derived Op)
            out.append(fam2.c09_prog("p_%04d" % i, op, False, br, False, ("bin",), base_assign=True, generic=True, bound_in_where=True))
            i += 1
    # `Self` nested inside path types (Output = Option<Self>, where Option<Self>: ..): must carry over to the derived forms
    for op in (ops[:2] if ctx.quick else ops):
        for br in (False, True):
            for generic in (False, True):
                out.append(fam2.c09_nested_self_prog("p_%04d" % i, op, br, generic))
                i += 1
    # further recorded findings (known_findings.jsonl), re-observed on every run: `Self` carried over textually
    rp = "\npub fn replay(_h: &str, _b: &[u8]) -> (bool, String) { (true, String::new()) }\n"
    out.append(E.Prog("p_kf_anon_lifetime", "#[derive(Clone)] pub struct Sl<'a>(pub &'a u8);\n#[derive_ex::derive_ex(Sub)]\nimpl core::ops::Sub for Sl<'_> { type Output = Self; fn sub(self, _r: Self) -> Self { self } }\n" + rp, [],
                      {"describe": "impl Sub for Sl<'_> { type Output = Self; .. }  derive_ex(Sub)"}))
    out.append(E.Prog("p_kf_self_assoc_const", "#[derive(Clone)] pub struct Sn(pub u8);\nimpl Sn { pub const N: usize = 2; }\n#[derive_ex::derive_ex(Add)]\nimpl core::ops::Add for Sn { type Output = [u8; Self::N]; fn add(self, r: Sn) -> [u8; 2] { [self.0, r.0] } }\n" + rp, [],
                      {"describe": "impl Add for Sn { type Output = [u8; Self::N]; .. }  derive_ex(Add)"}))
    out.append(E.Prog("p_macro_nested_self", "macro_rules! pair { ($t:ty) => { $t }; }\nmacro_rules! arr { ([$t:ty; $n:expr]) => { [$t; $n] }; }\n#[derive(Clone)] pub struct P(pub u8);\n#[derive_ex::derive_ex(Sub)]\nimpl core::ops::Sub<P> for P { type Output = pair!((Self, Self)); fn sub(self, r: P) -> (P, P) { (self, r) } }\n"
                      "#[derive(Clone)] pub struct Q(pub u8);\n#[derive_ex::derive_ex(Add, AddAssign)]\nimpl core::ops::Add<arr!([Self; 1])> for Q { type Output = Q; fn add(self, r: [Q; 1]) -> Q { Q(self.0 + r[0].0) } }\n"
                      "pub fn forms(a: P, b: P, c: Q, d: Q) -> ((P, P), (P, P), Q) { let mut e = c.clone(); e += &[d.clone()]; (&a - &b, &a - b.clone(), &c + [d]) }\n" + rp, [],
                      {"describe": "impl Sub<P> for P { type Output = pair!((Self, Self)); .. } / impl Add<arr!([Self; 1])> for Q  derive_ex(Sub) / (Add, AddAssign): Self nested in a group inside type-macro arguments"}))
    out.append(E.Prog("p_kf_cfg_output", "#[derive(Clone)] pub struct Sc(pub u8);\n#[derive_ex::derive_ex(Sub)]\nimpl core::ops::Sub for Sc { #[cfg(any())] type Output = i16; #[cfg(all())] type Output = Sc; fn sub(self, r: Sc) -> Sc { Sc(self.0 - r.0) } }\n" + rp, [],
                      {"describe": "impl Sub for Sc { #[cfg(any())] type Output = i16; #[cfg(all())] type Output = Sc; .. }  derive_ex(Sub)"}))
    out.append(E.Prog("p_kf_unsized_rhs_referent", "#[derive(Clone)] pub struct Ss(pub u8);\n#[derive_ex::derive_ex(Add)]\nimpl core::ops::Add<&str> for Ss { type Output = Ss; fn add(self, r: &str) -> Ss { Ss(self.0 + r.len() as u8) } }\n" + rp, [],
                      {"describe": "impl Add<&str> for Ss { .. }  derive_ex(Add)"}))
    # the one recorded finding of this property, always re-observed: `Self` in the where-clause of an impl for `&T`
    out.append(fam2.c09_prog("p_%04d" % i, "Sub", True, True, False, ("bin",), generic=True, self_in_where=True))
    return out


def canary():
    p = fam2.c09_prog("p_canary", "Sub", False, False, False, ("bin",))
    p.text = p.text.replace("r.c == (((x.c + 1) << 4) | (y.c + 1))", "r.c == (((x.c + 0) << 4) | (y.c + 1))")
    assert "(x.c + 0) << 4) | (y.c + 1)" in p.text
    return p


def run(ctx):
    progs = programs(ctx)
    st = E.run_family(ctx, "C09", progs, canary(), missing_impl_re=r"^cannot (add|subtract|multiply|divide|calculate|apply|shift|negate)|^no implementation for|^binary (assignment )?operation|is not satisfied$|^cannot apply unary operator", per=80, extra_support=fam2.C09_SUPPORT)
    ctx.assumptions += [
        "Kani 0.68 / CBMC 6.11, proof_for_contract on one wrapper per generated impl; loop-free, all operand values and clone counters => complete per program",
        "operand types carry a clone counter; the user impl is non-commutative, op-specific and records the counters it sees, so the contract fixes: result == user impl on the same operands in order, applied once (a second application changes v), clone count per operand == 1 iff received by reference (or &mut self) but needed by value",
        "thorough tier enumerates the whole finite space of the statement (10 ops x 4 base forms x Rhs in {Self, other} x 3 requested sets + OpAssign bases); quick tier a seeded half of 3 operators",
        "Output/generics/where-clause carry-over is a compile-time obligation (SameTy2 bound, generic programs with `where Self: Sized`) discharged by rustc",
    ]
    g = glayer.run_g(ctx, {"implitem": ["to_ref_elem", "to_rhs", "ref_type_with", "find_output_type", "Args::from_attr_args"]})
    ctx.assumptions += [
        "layer G (Verus, contracts/implitem.rs): to_ref_elem == ref_elem (looks through parentheses/groups, only a plain `&T` is the reference form), to_rhs == rhs_of (the single type argument with Self written out, else the self type), ref_type_with, Args::from_attr_args (which forms are requested); syn's Type / PathSegment / Punctuated are stand-ins with the variant and field names the functions look at (Punctuated modelled as Vec), expand_self / ref_type uninterpreted",
    ]
    cov = dict(st)
    cov.update({"obligations": st["kani_harnesses"] + g["obligations"], "discharged": st["kani_verified"] + g["discharged"], "g_functions_under_contract": g["functions_under_contract"], "g_units": g["units"], "assumption_scan": g["assumption_scan"], "solver_ms": g["smt_ms"],
                "checker_cmd": "cargo kani -Z function-contracts -j 16 --output-format terse (crates build/e/C09/*)",
                "trusted_base": ["Kani 0.68.0 / CBMC 6.11", "rustc (real proc-macro expansion)"],
                "functions_under_contract": ["w_bin_<form> / w_assign_<form> / w_bin_from_assign wrappers of every generated operator impl"],
                "exhaustive": not ctx.quick, "samples": [p.meta["describe"] for p in progs[:6]]})
    return ctx.finish(LEVEL, cov)


def replay(path):
    return E.replay_file(path)

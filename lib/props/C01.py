"""C01: derived ==, partial_cmp, cmp follow the documented lexicographic rule."""
import json, random
import refmodel as R, cmpfam as F, elayer as E, glayer
from common import Undecided

LEVEL = "proof"
SUBSETS = [["PartialEq"], ["PartialEq", "PartialOrd"], ["PartialEq", "Eq"], ["PartialEq", "Eq", "PartialOrd", "Ord"],
           ["PartialOrd"], ["Ord"], ["Eq"], ["PartialOrd", "Ord"], ["PartialEq", "Eq", "PartialOrd", "Ord", "Hash"]]
G_UNITS = {"cmp_flags": ["CompareOp::is_effects_to", "HelperAttributesForCompareOp::is_ignore", "HelperAttributesForCompareOp::is_reverse"],
           "cmp_select": ["build_partial_eq_expr", "build_partial_ord_expr", "build_ord_expr", "ItemSourceKind::self_of", "ItemSourceKind::other_of"],
           "kinds": ["HelperAttributeKinds::is_match_cmp_attr", "HelperAttributeKinds::extend", "HelperAttributesForCompareOp::from_attrs"]}


def programs(ctx):
    rng = random.Random(ctx.seed)
    n = 90 if ctx.quick else 1200
    out = []
    for i in range(n):
        derived = SUBSETS[i % len(SUBSETS)] if i % 3 else ["PartialEq", "Eq", "PartialOrd", "Ord"]
        td = F.random_typedef(rng, derived)
        out.append(F.build_prog("p_%04d" % i, td, want=("PartialEq", "PartialOrd", "Ord")))
    return out


def canary():
    """a deliberately false contract: must be refuted, or the pipeline is blind"""
    td = F.TypeDef(False, [F.Variant("X", "tuple", [F.Field(None, "u8", {a: () for a in R.OPS})])], ["PartialEq", "Eq", "PartialOrd", "Ord"])
    p = F.build_prog("p_canary", td, want=("Ord",))
    p.text = p.text.replace("let o = Ord::cmp(x_0, y_0);", "let o = Ord::cmp(y_0, x_0);")
    assert "Ord::cmp(y_0, x_0)" in p.text
    return p


def run(ctx):
    progs = programs(ctx)
    # recorded finding (see known_findings.jsonl): a false #[cfg] on a tuple field in front of the compared ones, attribute entry point
    progs.append(E.Prog("p_cfg_tuple", "#[derive_ex::derive_ex(Ord, PartialOrd, Eq, PartialEq)]\n#[derive(Debug)]\npub struct A(#[cfg(any())] pub u8, pub u32, #[ord(ignore)] pub u32);\n\n"
                        "pub fn ncheck() -> Vec<String> { let mut out = Vec::new(); if A(1, 0) != A(1, 5) || Ord::cmp(&A(1, 0), &A(1, 5)) != Ordering::Equal { out.push(\"the #[ord(ignore)] field takes part in the comparison (field indices shifted by the removed field)\".to_string()); } out }\n"
                        "pub fn replay(_h: &str, _b: &[u8]) -> (bool, String) { (true, String::new()) }\n", [],
                        {"describe": "#[derive_ex(Ord, PartialOrd, Eq, PartialEq)] struct A(#[cfg(any())] u8, u32, #[ord(ignore)] u32);"}, ncheck=True))
    st = E.run_family(ctx, "C01", progs, canary())
    g = glayer.run_g(ctx, G_UNITS)
    ctx.assumptions += [
        "layer E: Kani 0.68 / CBMC 6.11 (bit-precise machine integers), Kani's contract instrumentation; harnesses are loop-free over full-domain symbolic inputs => complete per program",
        "layer E: partial_cmp postconditions are asserted in plain loop-free #[kani::proof] harnesses (contract instrumentation of Option::map(_, Ordering::reverse) costs minutes); eq/cmp use proof_for_contract",
        "layer E: programs are an enumerated family (seeded); shapes <= 4 fields / 4 variants; reference rule = lib/cmpfam.py written from the documented rule",
        "layer G: see evidence of C05 for the prelude stand-ins",
    ]
    cov = dict(st)
    cov.update({
        "obligations": st["kani_harnesses"] + g["obligations"], "discharged": st["kani_verified"] + g["discharged"],
        "checker_cmd": "cargo kani -Z function-contracts -j 16 --output-format terse (crates build/e/C01/*) ; verus build/g/{cmp_flags,cmp_select,kinds}.rs",
        "trusted_base": ["Kani 0.68.0 / CBMC 6.11", "rustc (proc-macro expansion of the real /repo/derive-ex)", "Verus/Z3 for layer G"],
        "functions_under_contract": ["w_eq/w_partial_cmp/w_cmp wrappers of the generated PartialEq::eq, PartialOrd::partial_cmp, Ord::cmp of every program"] + g["functions_under_contract"],
        "g_units": g["units"], "solver_ms_verus": g["smt_ms"],
        "samples": [p.meta["describe"] for p in progs[:5]],
    })
    return ctx.finish(LEVEL, cov)


def replay(path):
    return E.replay_file(path)

"""C01: derived ==, partial_cmp, cmp follow the documented lexicographic rule."""
import json, random
import refmodel as R, cmpfam as F, elayer as E, glayer
from common import Undecided

LEVEL = "proof"
SUBSETS = [["PartialEq"], ["PartialEq", "PartialOrd"], ["PartialEq", "Eq"], ["PartialEq", "Eq", "PartialOrd", "Ord"],
           ["PartialOrd"], ["Ord"], ["Eq"], ["PartialOrd", "Ord"], ["PartialEq", "Eq", "PartialOrd", "Ord", "Hash"]]
G_UNITS = {"cmp_flags": ["CompareOp::is_effects_to", "HelperAttributesForCompareOp::is_ignore", "HelperAttributesForCompareOp::is_reverse"]}


def programs(ctx):
    rng = random.Random(ctx.seed)
    n = 90 if ctx.quick else 1200
    out = []
    for i in range(n):
        derived = SUBSETS[i % len(SUBSETS)] if i % 3 else ["PartialEq", "Eq", "PartialOrd", "Ord"]
        td = F.random_typedef(rng, derived)
        out.append(F.build_prog("p_%04d" % i, td, want=("PartialEq", "PartialOrd", "Ord")))
    return out


def canary():
    """a deliberately false contract: must be refuted, or the pipeline is blind"""
    td = F.TypeDef(False, [F.Variant("X", "tuple", [F.Field(None, "u8", {a: () for a in R.OPS})])], ["PartialEq", "Eq", "PartialOrd", "Ord"])
    p = F.build_prog("p_canary", td, want=("Ord",))
    p.text = p.text.replace("let o = Ord::cmp(x_0, y_0);", "let o = Ord::cmp(y_0, x_0);")
    assert "Ord::cmp(y_0, x_0)" in p.text
    return p


def run(ctx):
    progs = programs(ctx)
    crates = []
    per = 60
    results, rejected, n_h = {}, {}, 0
    total_fail = 0
    kani_wall = 0
    for ci in range(0, len(progs), per):
        c = E.ECrate("C01", "c%02d" % (ci // per))
        for p in progs[ci:ci + per]:
            c.add(p)
        if ci == 0:
            c.add(canary())
        c.write()
        rej = c.triage()
        rejected.update(rej)
        res = c.run_kani()
        if ci == 0:
            can = [h for h in res if h.startswith("p_canary::")]
            if not can or any(res[h]["ok"] for h in can):
                raise Undecided("canary contract was not refuted: the Kani pipeline is blind")
            for h in can:
                del res[h]
            c.progs = [p for p in c.progs if p.name != "p_canary"]
        n_h += len(res)
        total_fail += E.decide(ctx, c, res, lambda prog, h: "E:C01:%s:%s" % (prog.meta["describe"], h), lambda prog: prog.meta["describe"])
        results.update({c.name + "/" + k: v for k, v in res.items()})
        kani_wall += c.kani_wall
    byname = {p.name: p for p in progs}
    for pn, diags in rejected.items():
        prog = byname.get(pn)
        if prog is None:
            continue
        ctx.violation("E:C01:compile:%s" % prog.meta["describe"], "accepted program does not compile: %s" % diags[0]["message"],
                      {"layer": "E", "program": prog.text, "harness": "", "meta": prog.meta, "rustc": diags[:3]})
    g = glayer.run_g(ctx, G_UNITS)
    ok = sum(1 for r in results.values() if r["ok"])
    ctx.assumptions += [
        "layer E: Kani 0.68 / CBMC 6.11 (bit-precise machine integers), Kani's contract instrumentation; harnesses are loop-free over full-domain symbolic inputs => complete per program",
        "layer E: programs are an enumerated family (seeded); shapes <= 4 fields / 4 variants; reference rule = lib/cmpfam.py written from the documented rule",
        "layer G: see evidence of C05 for the prelude stand-ins",
    ]
    cov = {
        "obligations": n_h + g["obligations"], "discharged": ok + g["discharged"],
        "checker_cmd": "cargo kani -Z function-contracts -j 16 --output-format terse (crates build/e/C01/*) ; verus build/g/cmp_flags.rs",
        "trusted_base": ["Kani 0.68.0 / CBMC 6.11", "rustc (proc-macro expansion of the real /repo/derive-ex)", "Verus/Z3 for layer G"],
        "programs": len(progs), "kani_harnesses": n_h, "kani_verified": ok, "kani_wall_s": round(kani_wall, 1),
        "programs_rejected_by_rustc": len(rejected),
        "functions_under_contract": ["w_eq/w_partial_cmp/w_cmp wrappers of the generated PartialEq::eq, PartialOrd::partial_cmp, Ord::cmp of every program"] + g["functions_under_contract"],
        "g_units": g["units"],
        "samples": [p.meta["describe"] for p in progs[:5]],
        "canary_refuted": True,
    }
    return ctx.finish(LEVEL, cov)


def replay(path):
    return E.replay_file(path)

"""C15: same impls via either entry point, merged or split lists, any co-derived set."""
import random, json, re
import itemgen as G, refmodel as R, glayer, blayer as B
from common import Expander

LEVEL = "exploration"
G_UNITS = {"kinds": ["HelperAttributeKinds::is_match_cmp_attr", "HelperAttributeKinds::extend", "HelperAttributesForCompareOp::from_attrs", "build_from_derive_input"], "entry": ["DeriveEntry::from_args_list"], "implitem": ["Args::from_attr_args", "is_root_derive_ex_attr"]}
ENTRY_ITEMS = {"Eq": 2, "Add": 4, "Sub": 4, "Mul": 4, "BitAnd": 4, "Shl": 4, "AddAssign": 2, "SubAssign": 2, "ShrAssign": 2, "Neg": 2, "Not": 2}


def impls_of(r, has_item):
    if r["status"] != "ok" or r.get("items") is None:
        return None
    return [i["canon"] for i in r["items"][(1 if has_item else 0):]]


def per_trait(items, traits):
    """split the generated items per entry by position (error entries are one compile_error item)"""
    out, i = [], 0
    for t in traits:
        if i >= len(items):
            return None
        if "compile_error" in items[i] and items[i].startswith(": : core : : compile_error"):
            out.append([items[i]]); i += 1
            continue
        n = ENTRY_ITEMS.get(t, 2 if t.endswith("Assign") else 4 if t in ("Add", "Sub", "Mul", "Div", "Rem", "BitAnd", "BitOr", "BitXor", "Shl", "Shr") else 1)
        out.append(items[i:i + n]); i += n
    return out if i == len(items) else None


def expand_like_rustc(ex, args, item, fuel=6):
    """attribute macros expand outside-in: the first derive_ex attribute runs, its output item is expanded again if it still carries a
    derive_ex attribute macro written with the crate path (in-process emulation of rustc's expansion loop); returns the impls in order"""
    out = []
    while fuel:
        fuel -= 1
        r = ex.attr(args, item)
        if r["status"] != "ok" or not r.get("items"):
            return None
        out += [i["canon"] for i in r["items"][1:]]
        nxt = B.take_qualified_attr(r["items"][0]["tokens"])
        if nxt is None:
            return out
        args, item = nxt
    return None


def run(ctx):
    ex = Expander()
    rng = random.Random(ctx.seed + 15)
    n = 1500 if ctx.quick else 40000
    evals = nontriv = 0
    samples = []
    for k in range(n):
        it, derived = G.random_item(rng, helper_for_underived=False)
        src = it.render()
        lst = ", ".join(derived)
        a = ex.attr(lst, src)
        base = impls_of(a, True)
        evals += 1
        rep = {"layer": "B", "item": src, "args": lst}
        key = "B:C15:%s:%s" % (lst, re.sub(r"\s+", " ", src)[:200])
        if base is None:
            ctx.violation(key, "attribute-macro expansion failed: %s" % a["status"], dict(rep, result=a))
            continue
        # (a) derive entry point
        d = ex.derive("#[derive_ex(%s)] %s" % (lst, src))
        evals += 1
        if impls_of(d, False) != base:
            ctx.violation(key + ":derive", "#[derive(Ex)] generates different impls than #[derive_ex(..)]", dict(rep, attr=base, derive=impls_of(d, False)))
        # (b) split lists: first half as macro args, rest as separate derive_ex attributes on the item
        if len(derived) > 1:
            cut = rng.randint(1, len(derived) - 1)
            split_src = " ".join("#[derive_ex(%s)]" % t for t in derived[cut:]) + " " + src
            s = ex.attr(", ".join(derived[:cut]), split_src)
            evals += 1
            nontriv += 1
            if impls_of(s, True) != base:
                ctx.violation(key + ":split", "splitting the trait list across several derive_ex attributes changes the impls", dict(rep, split_item=split_src, merged=base, split=impls_of(s, True)))
            s2 = ex.attr(", ".join(derived[:cut]), "/// lead\n " + " /// between\n ".join("#[derive_ex(%s)]" % t for t in derived[cut:]) + " /// tail\n " + src)
            evals += 1
            if impls_of(s2, True) != base:
                ctx.violation(key + ":split-interleaved", "doc comments between the split derive_ex attributes change the impls", dict(rep, split_item=split_src, merged=base, split=impls_of(s2, True)))
            d2 = ex.derive(" ".join("#[derive_ex(%s)]" % t for t in derived) + " " + src)
            evals += 1
            if impls_of(d2, False) != base:
                ctx.violation(key + ":split-derive", "one derive_ex attribute per trait under #[derive(Ex)] changes the impls", dict(rep, merged=base, split=impls_of(d2, False)))
        # (c) each trait alone, provided the item carries no helper attribute belonging only to the other traits
        pt = per_trait(base, derived)
        if pt is None:
            ctx.violation(key + ":order", "impls do not appear entry by entry in the order the traits were listed", dict(rep, attr=base))
            continue
        names_used = set(a_.name for a_ in it.attrs if a_.name) | set(a_.name for v in it.variants for a_ in v.attrs if a_.name) | set(a_.name for v in it.variants for f in v.fields for a_ in f.attrs if a_.name)
        for idx, t in enumerate(derived):
            if derived.count(t) > 1:
                continue
            if not names_used <= G.owned_names([t]):
                continue
            alone = impls_of(ex.derive("#[derive_ex(%s)] %s" % (t, src)), False)
            evals += 1
            if alone != pt[idx]:
                ctx.violation(key + ":alone:" + t, "impl of %s differs when derived alone vs. together with %s" % (t, lst), dict(rep, trait=t, together=pt[idx], alone=alone))
        if len(samples) < 3 and len(derived) > 2:
            samples.append(rep)
        if len(ctx.violations) > 30:
            break
    # relation (c), dedicated: helper attributes of ONE trait on the fields must not leak into the impls of the traits listed after (or before) it:
    # the impl of T inside the list == the impl of T alone on the item without the other traits' helper attributes
    LEAK = [("struct X { a: u8, #[debug(ignore)] b: u8, c: u8 }", "struct X { a: u8, b: u8, c: u8 }", "Debug", ["SubAssign", "Clone", "PartialEq", "Neg", "Default", "Add", "Hash"]),
            ("struct X(#[debug(transparent)] u8, u8);", "struct X(u8, u8);", "Debug", ["ShlAssign", "Clone", "Not", "PartialOrd", "Default"]),
            ("enum X { A { #[debug(ignore)] a: u8, b: u8 }, #[default] B(#[debug(ignore)] u8) }", "enum X { A { a: u8, b: u8 }, #[default] B(u8) }", "Debug", ["Clone", "PartialEq", "Hash", "Default"]),
            ("struct X { #[default(7)] a: u8, b: u8 }", "struct X { a: u8, b: u8 }", "Default", ["AddAssign", "Clone", "Debug", "PartialEq", "Neg"]),
            ("struct X { #[eq(ignore)] a: u8, #[ord(key = $.abs())] b: i8 }", "struct X { a: u8, b: i8 }", "PartialEq", ["SubAssign", "Clone", "Debug", "Neg", "Default"])]
    for with_attr, plain, owner, others in LEAK:
        for order in ("first", "last", "middle"):
            for k in range(2 if ctx.quick else 6):
                sel = rng.sample(others, min(len(others), 3))
                lst = {"first": [owner] + sel, "last": sel + [owner], "middle": sel[:1] + [owner] + sel[1:]}[order]
                tog = impls_of(ex.attr(", ".join(lst), with_attr), True)
                ptt = per_trait(tog, lst) if tog is not None else None
                evals += 1
                nontriv += 1
                if ptt is None:
                    ctx.violation("B:C15:leak:%s:%s" % (", ".join(lst), with_attr), "expansion failed or impls do not appear entry by entry", {"layer": "B", "item": with_attr, "args": ", ".join(lst), "together": tog})
                    continue
                for idx, t in enumerate(lst):
                    if t == owner:
                        continue
                    alone = impls_of(ex.attr(t, plain), True)
                    evals += 1
                    if alone != ptt[idx]:
                        ctx.violation("B:C15:leak:%s:%s:%s" % (", ".join(lst), t, with_attr), "impl of %s changes when %s (whose helper attributes the fields carry) is listed %s in the same request" % (t, owner, order),
                                      {"layer": "B", "item": with_attr, "args": ", ".join(lst), "trait": t, "together": ptt[idx], "alone_on_plain_item": alone})
    # relation (a) on the bound(...) family of C04: type-, variant- and field-level #[derive_ex(Trait(bound(..)), bound(..))] and helper bounds
    import boundfam as BF
    for is_enum in (False, True):
        for trait in (BF.ENUM_TRAITS if is_enum else BF.STRUCT_TRAITS):
            for _ in range(6 if ctx.quick else 120):
                prog = BF.random_prog(rng, trait, is_enum)
                item, args = prog.item_text(), prog.macro_args()
                a_ = impls_of(ex.attr(args, item), True)
                d_ = impls_of(ex.derive("#[derive_ex(%s)] %s" % (args, item)), False)
                evals += 2
                nontriv += 1
                if a_ is None or a_ != d_:
                    ctx.violation("B:C15:entry-bounds:%s:%s" % (args, re.sub(r"\s+", " ", item)[:200]), "#[derive(Ex)] and #[derive_ex(..)] generate different impls for an item with nested derive_ex bound arguments",
                                  {"layer": "B", "item": item, "args": args, "attr": a_, "derive": d_})
    # relation (c) with per-trait arguments: `Trait(bound(..))` belongs to that entry only, whatever precedes or follows it in the list,
    # and the list-wide `bound(..)` to every entry of its own list only
    PT_ARGS = ["", "", "(bound())", "(bound(T: M%d))", "(bound(T: M%d, ..))", "(bound(..))", "(bound(Vec<T>))"]
    SHARED = ["", "", ", bound(T: S%d)", ", bound(T: S%d, ..)", ", bound()"]
    for k in range(150 if ctx.quick else 6000):
        is_enum = rng.random() < 0.4
        pool = G.TRAITS_ENUM if is_enum else [t for t in G.TRAITS_STRUCT if t not in ("Deref", "DerefMut")]
        traits = rng.sample(pool, rng.randint(2, 4))
        ents = [t + (rng.choice(PT_ARGS).replace("%d", str(i))) for i, t in enumerate(traits)]
        item = ("enum X<T> { #[default] A(Option<T>), B { b: T } }" if is_enum else rng.choice(["struct X<T> { a: Option<T>, b: u8 }", "struct X<T>(T);"]))
        if "Copy" in traits and "Clone" not in traits:
            pass      # expansion only; no type-check involved
        def expand(groups):
            """groups: list of (entries, shared) -> one #[derive_ex(..)] attribute each"""
            src = " ".join("#[derive_ex(%s%s)]" % (", ".join(es), sh) for es, sh in groups) + " " + item
            return src, impls_of(ex.derive(src), False)
        sh = rng.choice(SHARED).replace("%d", "0")
        src, tog = expand([(ents, sh)])
        evals += 1
        nontriv += 1
        pt = per_trait(tog, traits) if tog is not None else None
        if pt is None:
            ctx.violation("B:C15:pertrait:%s" % src, "expansion failed or impls do not appear entry by entry", {"layer": "B", "item": src, "together": tog})
            continue
        for idx, e in enumerate(ents):
            _, alone = expand([([e], sh)])
            evals += 1
            if alone != pt[idx]:
                ctx.violation("B:C15:pertrait:%s:%s" % (e, src), "impl of %s differs when requested alone vs. inside the list (per-trait arguments of a neighbour leak, or its own are lost)" % e,
                              {"layer": "B", "item": src, "entry": e, "together": pt[idx], "alone": alone})
                break
        # split into two attributes, each with its own shared bound: entries keep their own list's shared bound
        cut = rng.randint(1, len(ents) - 1)
        sh2 = rng.choice(SHARED).replace("%d", "1")
        src2, sp = expand([(ents[:cut], sh), (ents[cut:], sh2)])
        evals += 1
        pt2 = per_trait(sp, traits) if sp is not None else None
        if pt2 is None:
            ctx.violation("B:C15:pertrait-split:%s" % src2, "expansion failed or impls do not appear entry by entry", {"layer": "B", "item": src2, "split": sp})
            continue
        for idx, e in enumerate(ents):
            _, alone = expand([([e], sh if idx < cut else sh2)])
            evals += 1
            if alone != pt2[idx]:
                ctx.violation("B:C15:pertrait-split:%s:%s" % (e, src2), "impl of %s differs when requested alone vs. in one of two derive_ex attributes" % e,
                              {"layer": "B", "item": src2, "entry": e, "together": pt2[idx], "alone": alone})
                break
        if len(ctx.violations) > 30:
            break
    # split lists written with the crate path (`#[derive_ex::derive_ex(..)]` stacked): same impls as the merged list
    qn = 0
    for lists, item in [([["PartialEq", "Eq"], ["Hash"]], "struct S { #[eq(key = $.abs())] x: i32 }"),
                        ([["Ord", "PartialOrd"], ["Eq", "PartialEq"]], "struct X(#[ord(key = $.abs())] i8);"),
                        ([["PartialOrd", "PartialEq"], ["Ord", "Eq"]], "enum E { A(#[ord(reverse)] u8), B }"),
                        ([["Clone"], ["Debug"]], "struct P<T> { #[derive_ex(Debug(bound(T: Copy)))] a: Box<T> }"),
                        ([["PartialEq"], ["Eq"], ["Hash"], ["Debug"]], "struct S { #[eq(key = $.len())] #[debug(ignore)] s: String, t: u8 }"),
                        ([["Default", "Clone"], ["PartialEq", "PartialOrd"]], "enum E<T> { #[default] A { #[default(3)] #[partial_ord(ignore)] a: u8, t: Option<T> }, B }")]:
        merged = impls_of(ex.attr(", ".join(t for l in lists for t in l), item), True)
        for spelling in ("derive_ex::derive_ex", "::derive_ex::derive_ex"):
            stacked_item = " ".join("#[%s(%s)]" % (spelling, ", ".join(l)) for l in lists[1:]) + " " + item
            got = expand_like_rustc(ex, ", ".join(lists[0]), stacked_item)
            evals += len(lists) + 1
            nontriv += 1
            qn += 1
            if got is None or got != merged:
                ctx.violation("B:C15:stacked-qualified:%s:%s" % (spelling, stacked_item), "the trait list split over stacked #[%s(..)] attributes does not give the impls of the merged list (helper attributes are consumed by the first expansion)" % spelling,
                              {"layer": "B", "item": stacked_item, "args": ", ".join(lists[0]), "merged": merged, "stacked": got})
    # impl items: the requested set split over stacked attributes == the merged list
    for hdr, body in [("impl core::ops::Add<A> for A", "type Output = A; fn add(self, r: A) -> A { A(self.0 + r.0) }"),
                      ("impl<'a> core::ops::Sub<&'a A> for &'a A", "type Output = A; fn sub(self, r: &'a A) -> A { A(self.0 - r.0) }"),
                      ("impl<T: Clone> core::ops::Mul<&G<T>> for G<T> where T: Copy", "type Output = G<T>; fn mul(self, _r: &G<T>) -> G<T> { self }")]:
        op = re.search(r"ops::(\w+)", hdr).group(1)
        item = "%s { %s }" % (hdr, body)
        merged = impls_of(ex.attr("%s, %sAssign" % (op, op), item), True)
        for first, second in ((op, op + "Assign"), (op + "Assign", op)):
            for spelling in ("derive_ex", "derive_ex::derive_ex"):
                # foreign attributes may stand before / between / after the split attributes (doc comments: they change no impl)
                for pre, post in (("", ""), ("/// lead\n ", ""), ("", "/// tail\n "), ("#[doc = \"a\"] ", "#[doc = \"b\"] ")):
                    split_item = "%s#[%s(%s)] %s%s" % (pre, spelling, second, post, item)
                    got = expand_like_rustc(ex, first, split_item)
                    evals += 3
                    nontriv += 1
                    if got is None or merged is None or sorted(got) != sorted(merged):
                        ctx.violation("B:C15:impl-split:%s:%s:%s:%s" % (spelling, first, hdr, (pre + "|" + post).strip()), "#[derive_ex(%s)] %s#[%s(%s)] %son an impl item does not give the impls of the merged list" % (first, pre, spelling, second, post),
                                      {"layer": "B", "item": split_item, "args": first, "merged": merged, "split": got})
    # systematic part of relation (c): every comparison trait, alone vs. with every co-derived subset of the other comparison traits,
    # on fields carrying only helper attributes that belong to that trait
    import itertools, cmpfam
    for t in R.CMP_TRAITS:
        acc = [c for c in cmpfam.accepted_for((t,)) if any(c[a] for a in R.OPS)]
        for c in rng.sample(acc, min(len(acc), 12 if ctx.quick else 200)):
            at = R.attr_text(c)
            for item in ("struct X { %s a: u8, b: u8 }" % at, "enum X { A, B(u8, %s u8) }" % at):
                alone = impls_of(ex.derive("#[derive_ex(%s)] %s" % (t, item)), False)
                evals += 1
                others = [u for u in R.CMP_TRAITS if u != t]
                for k in range(1, len(others) + 1):
                    for co in itertools.combinations(others, k):
                        lst = [t] + list(co) if (k % 2) else list(co) + [t]
                        r = impls_of(ex.derive("#[derive_ex(%s)] %s" % (", ".join(lst), item)), False)
                        evals += 1
                        nontriv += 1
                        pt = per_trait(r, lst) if r is not None else None
                        got = pt[lst.index(t)] if pt else None
                        if got != alone:
                            ctx.violation("B:C15:coderived:%s:%s:%s" % (t, "+".join(lst), item), "impl of %s changes when %s are derived alongside (the item carries only helper attributes that belong to %s)" % (t, ", ".join(co), t),
                                          {"layer": "B", "item": item, "args": ", ".join(lst), "trait": t, "alone": alone, "together": got})
                            break
                    else:
                        continue
                    break
    ex.close()
    # what only rustc can show (the in-process expander sees identical tokens): inner #[cfg] is evaluated for derive input but not for
    # attribute input, and a renamed import of the attribute macro is not recognised as a sibling list
    import elayer as E
    rp = "\npub fn replay(_h: &str, _b: &[u8]) -> (bool, String) { (true, String::new()) }\n"
    cfg_item = "pub struct S { pub a: u8, #[cfg(any())] pub b: NoSuchType }"
    eprogs = [
        E.Prog("p_cfg_derive", "#[derive(derive_ex::Ex)]\n#[derive_ex(Clone, Debug, PartialEq)]\n" + cfg_item + rp, [], {"describe": "#[derive(Ex)] #[derive_ex(Clone, Debug, PartialEq)] " + cfg_item}),
        E.Prog("p_cfg_attr", "#[derive_ex::derive_ex(Clone, Debug, PartialEq)]\n" + cfg_item + rp, [], {"describe": "#[derive_ex(Clone, Debug, PartialEq)] " + cfg_item}),
        E.Prog("p_derive_plus_crate_path", "#[derive(derive_ex::Ex)]\n#[derive_ex::derive_ex(Eq, PartialEq, Debug)]\npub struct X { pub a: u8 }\n#[derive_ex::derive_ex(Eq, PartialEq, Debug)]\n#[derive(derive_ex::Ex)]\n#[derive_ex(Clone)]\npub struct Y { pub a: u8 }\n" + rp, [],
               {"describe": "#[derive(Ex)] stacked with a crate-path #[derive_ex::derive_ex(..)] attribute macro (each list expanded exactly once)"}),
        E.Prog("p_kf_derive_helper_then_crate_path", "#[derive(derive_ex::Ex)]\n#[derive_ex(Clone)]\n#[derive_ex::derive_ex(Default)]\npub struct B(pub u8);\n" + rp, [],
               {"describe": "#[derive(Ex)] #[derive_ex(Clone)] #[derive_ex::derive_ex(Default)] struct B(u8);"}),
        E.Prog("p_cfg_attr_helper_attr", "#[derive_ex::derive_ex(Ord, PartialOrd, Eq, PartialEq)]\npub struct X(#[cfg_attr(all(), ord(ignore))] pub u8, pub u8);\n" + rp, [],
               {"describe": "#[derive_ex(Ord, PartialOrd, Eq, PartialEq)] struct X(#[cfg_attr(all(), ord(ignore))] u8, u8);"}),
        E.Prog("p_cfg_attr_helper_derive", "#[derive(derive_ex::Ex)]\n#[derive_ex(Ord, PartialOrd, Eq, PartialEq)]\npub struct X(#[cfg_attr(all(), ord(ignore))] pub u8, pub u8);\n" + rp, [],
               {"describe": "#[derive(Ex)] #[derive_ex(Ord, PartialOrd, Eq, PartialEq)] struct X(#[cfg_attr(all(), ord(ignore))] u8, u8);"}),
        E.Prog("p_alias_split", "use derive_ex::derive_ex as dx;\n#[dx(PartialEq, Eq)]\n#[dx(Hash)]\n#[derive(Debug)]\npub struct S { #[eq(key = $.abs())] pub x: i32 }\n\n"
               "pub fn ncheck() -> Vec<String> { use core::hash::{Hash, Hasher}; let mut out = Vec::new(); let (a, b) = (S { x: 1 }, S { x: -1 });\n"
               "    let h = |s: &S| { let mut r = Rec::new(); s.hash(&mut r); r };\n"
               "    if a == b && h(&a) != h(&b) { out.push(\"split over a renamed import of the attribute: equal values feed different hashes (merged list: the key)\".to_string()); }\n    out }\n" + rp,
               [], {"describe": "use derive_ex::derive_ex as dx; #[dx(PartialEq, Eq)] #[dx(Hash)] struct S { #[eq(key = $.abs())] x: i32 }"}, ncheck=True),
    ]
    est = E.run_family(ctx, "C15", eprogs, None)
    g = glayer.run_g(ctx, G_UNITS)
    ctx.assumptions += [
        "bounded stand-in carries most of this property: metamorphic token equality of in-process expansions (real generator code) on a seeded family of items; from_root / from_args_list use syn parsing and are not under contract",
        "contract core (layer G, proved): the set of helper attributes a trait sees is a function of the doc table only (is_match_cmp_attr == owned_cmp), so the co-derived set cannot change which helper attributes are parsed for a trait that owns them",
    ]
    cov = {"evaluations": evals, "distinct_nontrivial": nontriv,
           "rule": "seeded items x random trait lists; relations: attr vs derive entry, merged vs split lists (both entry points), each trait alone vs together, positional order; non-trivial = list of >= 2 traits that was split",
           "samples": samples, "g": {"obligations": g["obligations"], "discharged": g["discharged"], "functions_under_contract": g["functions_under_contract"]}}
    return ctx.finish(LEVEL, cov)


def replay(path):
    rep = json.load(open(path))
    print(json.dumps({k: v for k, v in rep.items() if k != "verifier_output"}, indent=1)[:5000])
    return 1

"""C05: documented misuse of comparison attributes is rejected; valid use is accepted."""
import json, random
import refmodel as R, blayer as B, glayer
from common import Expander, Undecided

LEVEL = "proof"
G_UNITS = {
    "cmp_flags": ["CompareOp::is_effects_to", "HelperAttributesForCompareOp::get", "HelperAttributesForCompareOp::is_ignore",
                  "HelperAttributesForCompareOp::is_reverse", "HelperAttributesForCompareOp::bad_attr", "HelperAttributeForCompareOp::bad_attr",
                  "HelperAttributeForCompareOp::verify", "HelperAttributesForCompareOp::verify", "bad_attr_1"],
    "cmp_select": ["build_partial_eq_expr", "build_eq_expr", "build_partial_ord_expr", "build_ord_expr", "build_hash_expr"],
    "entry": ["DeriveEntry::apply_dump"],
    "kinds": ["HelperAttributeKinds::is_match_cmp_attr", "HelperAttributesForCompareOp::from_attrs"],
    "cmp_bodies": ["build_partial_eq_body", "build_eq_body", "build_partial_ord_body", "build_ord_body", "build_hash_body", "build_compare_op"],
}


G_UNITS["implitem"] = ["is_root_derive_ex_attr"]      # which sibling attributes belong to the request (split lists)

def matrix(ctx, ex, placements, entries, combos, traits=R.CMP_TRAITS):
    n = nontriv = 0
    samples = []
    for c in combos:
        at = R.attr_text(c)
        exp = {t: R.accept(c, t) for t in traits}
        for pl in placements:
            item = B.PLACEMENTS[pl](at)
            for entry in entries:
                r, has_item = B.expand(ex, entry, traits, item)
                n += 1
                key = "B:matrix:%s:%s:%s" % (R.combo_name(c), pl, entry)
                rep = {"layer": "B", "entry": entry, "traits": traits, "item": item, "expected_accept": exp}
                if r["status"] != "ok" or r.get("items") is None:
                    ctx.violation(key, "expansion %s (%s)" % (r["status"], r.get("note", "output does not parse as items")), dict(rep, result=r))
                    continue
                res = B.split_entries(r["items"], traits, has_item)
                if res is None:
                    ctx.violation(key, "unexpected expansion shape (an error escaped its own trait?)", dict(rep, out=r["out"]))
                    continue
                got = {t: (st == "ok") for t, st, _ in res}
                if not all(exp.values()):
                    nontriv += 1
                if got != exp:
                    bad = [t for t in traits if got[t] != exp[t]]
                    ctx.violation(key, "traits %s: macro %s but the documented rule %s" % (
                        bad, ["rejects" if not got[t] else "accepts" for t in bad], ["rejects" if not exp[t] else "accepts" for t in bad]),
                        dict(rep, got_accept=got, out=r["out"]))
                    continue
                for t, st, msg in res:
                    if st == "error" and ("`%s`" % t) not in msg and ("(%s)" % t) not in msg:
                        ctx.violation(key, "error for %s does not name the offending trait: %s" % (t, msg), dict(rep, out=r["out"]))
                if len(samples) < 3 and not all(exp.values()):
                    samples.append({"item": item, "entry": entry, "accept": got})
    return n, nontriv, samples


def misplaced(ctx, ex):
    n = 0
    for a in R.OPS:
        for arg, txt in (("ignore", "ignore"), ("reverse", "reverse"), ("key", "key = $.0"), ("by", "by = f")):
            for where, item in (("type", "#[%s(%s)] struct X { a: u8 }" % (a, txt)),
                                ("enum", "#[%s(%s)] enum X { A { a: u8 } }" % (a, txt)),
                                ("variant", "enum X { #[%s(%s)] A { a: u8 }, B }" % (a, txt)),
                                ("unit variant", "enum X { #[%s(%s)] A, B { a: u8 } }" % (a, txt)), ("empty tuple variant", "enum X { B(u8), #[%s(%s)] A() }" % (a, txt)),
                                ("empty braced variant", "enum X { #[%s(%s)] A {} }" % (a, txt)), ("tuple struct", "#[%s(%s)] struct X(u8, u8);" % (a, txt)), ("unit struct", "#[%s(%s)] struct X;" % (a, txt))):
                for entry in ("attr", "derive"):
                    r, has_item = B.expand(ex, entry, R.CMP_TRAITS, item)
                    n += 1
                    key = "B:misplaced:%s(%s):%s:%s" % (a, arg, where, entry)
                    items = r.get("items") or []
                    errs = [i for i in items if i["kind"] == "compile_error"]
                    impls = [i for i in items if i["kind"] == "impl"]
                    if r["status"] != "ok" or not errs or impls:
                        ctx.violation(key, "`%s` on a %s must be a compile error" % (arg, where), {"layer": "B", "entry": entry, "item": item, "result": r})
            # the same attribute name carrying only bound(..) is valid on types and variants
            for item in ("#[%s(bound(T))] struct X<T> { a: T }" % a, "enum X<T> { #[%s(bound(T))] A { a: T }, B }" % a):
                r, has_item = B.expand(ex, "attr", R.CMP_TRAITS, item)
                n += 1
                items = r.get("items") or []
                if r["status"] != "ok" or any(i["kind"] == "compile_error" for i in items):
                    ctx.violation("B:valid-bound:%s" % a, "bound(..) on a type/variant is documented as valid", {"layer": "B", "item": item, "result": r})
    return n


def run(ctx):
    ex = Expander()
    combos = list(R.all_combos())
    if ctx.quick:
        placements, entries = ["named_after_plain", "variant"], ["attr", "derive"]
    else:
        placements, entries = ["named", "tuple", "variant", "variant_tuple", "named_after_plain", "tuple_after_plain", "variant_after_plain"], ["attr", "derive"]
    n, nontriv, samples = matrix(ctx, ex, placements, entries, combos)
    # the same matrix under other trait lists: every single trait, and (thorough: all, quick: a seeded third of) the other subsets;
    # the combination as the macro must see it is its restriction to the attributes owned by the listed traits (doc table)
    import itertools
    rng = random.Random(ctx.seed + 5)
    subsets = [list(s) for k in range(1, 5) for s in itertools.combinations(R.CMP_TRAITS, k)]
    sub_evals = 0
    for sub in subsets:
        if ctx.quick and len(sub) > 1 and rng.random() > 0.34:
            continue
        cs = combos if not ctx.quick else rng.sample(combos, 160)
        seen = set()
        rcs = []
        for c in cs:
            rc_ = R.restrict(c, sub)
            k_ = R.combo_name(rc_)
            if k_ not in seen:
                seen.add(k_); rcs.append(rc_)
        a_, b_, _ = matrix(ctx, ex, ["named"], ["attr", "derive"] if not ctx.quick else ["derive"], rcs, traits=sub)
        sub_evals += a_; nontriv += b_
    n += sub_evals
    # several arguments inside one attribute (ignore+reverse, ignore+key, key+by, ..): same rules, sampled
    xs = R.extended_combos(rng, 400 if ctx.quick else 12000)
    a_, b_, _ = matrix(ctx, ex, ["named_after_plain", "variant_tuple"] if ctx.quick else ["named", "tuple", "variant", "variant_tuple"], ["attr", "derive"], xs)
    n += a_; nontriv += b_
    # the trait list split over stacked attributes (sibling written bare, with the crate path, with a leading `::`): one request, the
    # same verdicts - a split must not let misuse through (rustc's outside-in expansion loop is emulated in-process, blayer.expand_rustc)
    cs = rng.sample(combos, 150) if ctx.quick else combos
    for tr in (R.CMP_TRAITS, ["PartialEq", "Hash", "Eq", "PartialOrd", "Ord"]):
        a_, b_, _ = matrix(ctx, ex, ["named", "variant_tuple"], ["attr_split_bare", "attr_split_path", "attr_split_abs"], cs, traits=tr)
        n += a_; nontriv += b_
    n2 = misplaced(ctx, ex)
    ex.close()
    g = glayer.run_g(ctx, G_UNITS)
    ctx.assumptions += [
        "layer G: Verus/Z3 and its rustc front end; opaque stand-ins of contracts/_prelude.rs (Span, Error, Expr, Template, TokenStream) and their assumed specs",
        "layer G: structmeta::Flag::value() == span.is_some() (compared with the registry source text on every run: %s)" % glayer.structmeta_flag_check(),
        "layer G: extraction rewrites " + json.dumps(g["units"][0].get("rewrites_applied")),
        "layer B (bounded, exhaustive over the stated 3136-combination matrix): parsing (syn/structmeta), entry loop and error isolation are executed, not proved",
        "proc_macro2 fallback lexer/printer stands for the compiler's token bridge in layer B",
    ]
    cov = {
        "obligations": g["obligations"], "discharged": g["discharged"],
        "checker_cmd": "verus build/g/<unit>.rs --output-json --time (units: %s)" % ",".join(G_UNITS),
        "trusted_base": ["Verus 0.2026.09.13 / Z3", "contracts/_prelude.rs stand-ins"],
        "functions_under_contract": g["functions_under_contract"], "g_units": g["units"], "assumption_scan": g["assumption_scan"],
        "solver_ms": g["smt_ms"],
        "bounded": {"what": "every (combination, placement, entry point) expanded in-process and compared with accept(h,t) for the five traits",
                    "evaluations": n + n2, "matrix_points": n, "misplaced_points": n2, "exhaustive": True, "placements": placements, "entries": entries},
        "evaluations": n + n2, "distinct_nontrivial": nontriv,
        "rule": "3136 combos x placements x entry points; non-trivial = at least one of the five traits must be rejected",
        "samples": samples, "exhaustive": True,
    }
    return ctx.finish(LEVEL, cov)


def replay(path):
    rep = json.load(open(path))
    print(json.dumps({k: rep[k] for k in rep if k not in ("verifier_output",)}, indent=1)[:3000])
    if rep.get("layer") == "G":
        print(rep.get("verifier_output", ""))
        if rep.get("counterexample_replay"):
            return replay(rep["counterexample_replay"])
        return 1
    ex = Expander()
    r, has_item = B.expand(ex, rep.get("entry", "attr"), rep.get("traits", R.CMP_TRAITS), rep["item"])
    print("expansion on the current tree:", r.get("status"))
    for it in r.get("items") or []:
        print("  ", it["kind"], (it.get("trait") or it.get("msg") or "")[:200])
    ex.close()
    return 1

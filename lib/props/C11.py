"""C11: default() returns the documented value."""
import random, json
import fam2, elayer as E, blayer as B
from common import Expander

LEVEL = "proof"


def canary():
    # a fixed, minimal program with a deliberately wrong expectation
    saved = fam2.C11_FIELD_CASES
    fam2.C11_FIELD_CASES = [("u8", "5", "5u8")]
    try:
        rng = random.Random(3)
        while True:
            p = fam2.c11_prog("p_canary", rng, "attr")
            if "5u8" in p.text and "X::new()" not in p.text:
                p.text = p.text.replace("5u8", "6u8", 1)
                return p
    finally:
        fam2.C11_FIELD_CASES = saved


def rejections(ctx, ex):
    """enums with no or several default variants, and a value on a variant's #[default(..)], are rejected (bounded, through the expander)"""
    cases = [
        ("enum X { A, B }", True), ("enum X { A, B(u8), C { a: u8 } }", True), ("enum X { #[default] A, #[default] B }", True),
        ("enum X { #[default] A, B, #[default(_)] C }", True), ("enum X { #[default(X::A)] A, B }", True), ("enum X { #[default(5)] A(u8) }", True),
        ("enum X { }", True), ("enum X { #[default] A, B }", False), ("enum X { A }", False), ("enum X { A(u8, bool) }", False), ("enum X { A { a: u8 } }", False),
        ("#[default(X::B)] enum X { A, B }", False), ("#[default(X::B)] enum X { #[default] A, #[default] B }", False), ("struct X;", False), ("struct X { #[default(3)] a: u8 }", False),
    ]
    n = 0
    for item, must_reject in cases:
        for entry in ("attr", "derive"):
            r, has_item = B.expand(ex, entry, ["Default"], item)
            n += 1
            res = B.split_entries(r.get("items") or [], ["Default"], has_item) if r["status"] == "ok" and r.get("items") is not None else None
            rejected = res is None or res[0][1] == "error"
            if res is None or rejected != must_reject:
                ctx.violation("B:C11:%s:%s" % (item, entry), "%s must be %s" % (item, "rejected" if must_reject else "accepted"), {"layer": "B", "item": item, "entry": entry, "result": r})
    return n


def run(ctx):
    rng = random.Random(ctx.seed + 11)
    n = 80 if ctx.quick else 1500
    progs = [fam2.c11_prog("p_%04d" % i, rng, ["attr", "derive"][i % 2]) for i in range(n)]
    # every row of the field-case table in every run (structs of four fields, both entry points)
    for entry in ("attr", "derive"):
        queue = list(fam2.C11_FIELD_CASES)
        while queue:
            progs.append(fam2.c11_prog("p_%04d" % len(progs), rng, entry, cover=queue))
    # the converse: a wrapped string literal / path gets no Into, so a value that needs the conversion is the user's type error
    for j, (fty, ex_) in enumerate([("S8", '("abc")'), ("S8", "(C_CC)"), ("S8", "{ K::W }"), ("S8", '("abc", bound())'.replace('("abc", bound())', '("xy"), bound()'))]):
        text = ("#[derive_ex::derive_ex(Default)]\npub struct X { #[default(%s)] pub a: %s }\n\npub fn replay(_h: &str, _b: &[u8]) -> (bool, String) { (true, String::new()) }\n" % (ex_, fty))
        progs.append(E.Prog("p_n%02d" % j, text, [], {"describe": "#[default(%s)] a: %s  [no Into for a wrapped literal/path: must be refused]" % (ex_, fty)}, expect_compile=False))
    # the value arrives through a macro_rules! fragment (an invisible group around the literal / path): it still *is* a string literal / a path
    mtext = ("macro_rules! mk_lit { ($n:ident, $t:ty, $e:literal) => { #[derive_ex::derive_ex(Default)] #[derive(Debug, PartialEq)] pub struct $n { #[default($e)] pub a: $t } } }\n"
             "macro_rules! mk_expr { ($n:ident, $t:ty, $e:expr) => { #[derive(derive_ex::Ex, Debug, PartialEq)] #[derive_ex(Default)] pub struct $n { #[default($e)] pub a: $t, pub z: u8 } } }\n"
             "macro_rules! mk_path { ($n:ident, $t:ty, $p:path) => { #[derive_ex::derive_ex(Default)] #[derive(Debug, PartialEq)] pub enum $n { A, #[default] B(#[default($p)] $t) } } }\n"
             "mk_lit!(M1, S8, \"abc\"); mk_expr!(M2, S8, \"xy\"); mk_expr!(M3, u8, { 0 }); mk_expr!(M4, u8, 1 + 2); mk_path!(M5, S8, C_CC); mk_expr!(M6, S8, K::W);\n\n"
             "pub fn ncheck() -> Vec<String> { let mut out = Vec::new();\n"
             "    if M1::default() != (M1 { a: <S8 as From<_>>::from(\"abc\") }) { out.push(format!(\"literal fragment: {:?}\", M1::default())); }\n"
             "    if M2::default() != (M2 { a: <S8 as From<_>>::from(\"xy\"), z: 0 }) { out.push(format!(\"expr fragment holding a literal: {:?}\", M2::default())); }\n"
             "    if M3::default() != (M3 { a: 0, z: 0 }) || M4::default() != (M4 { a: 3, z: 0 }) { out.push(\"expr fragment holding `_` / an arithmetic expression\".to_string()); }\n"
             "    if M5::default() != M5::B(<S8 as From<_>>::from(C_CC)) || M6::default() != (M6 { a: <S8 as From<_>>::from(K::W), z: 0 }) { out.push(\"path fragment\".to_string()); }\n    out }\n"
             "pub fn replay(_h: &str, _b: &[u8]) -> (bool, String) { (true, String::new()) }\n")
    progs.append(E.Prog("p_macro_fragments", mtext, [], {"describe": "#[default($e)] with $e a macro_rules! literal / expr / path fragment"}, ncheck=True))
    st = E.run_family(ctx, "C11", progs, canary(), per=100, extra_support=fam2.C11_SUPPORT)
    ex = Expander()
    nr = rejections(ctx, ex)
    ex.close()
    ctx.assumptions += [
        "default() has no input: each harness is a closed evaluation decided by CBMC; the quantifier is over programs (seeded family: shapes x default variant choice x per-field #[default(expr)] of every expression class of the statement x type-level values x bound(...) sharing the attribute)",
        "the Into boundary is observable through probe types whose From impls differ from identity (S8: From<&str>, From<Cc>); a missing/superfluous Into is a type error reported as 'accepted program does not compile'",
        "rejected shapes are executed through the real expander (bounded)",
    ]
    cov = dict(st)
    cov.update({"obligations": st["kani_harnesses"], "discharged": st["kani_verified"],
                "checker_cmd": "cargo kani -Z function-contracts -j 16 --output-format terse (crates build/e/C11/*)",
                "trusted_base": ["Kani 0.68.0 / CBMC 6.11", "rustc (real proc-macro expansion)"],
                "functions_under_contract": ["w_default wrapper of the generated Default::default of every program"],
                "bounded": {"rejection_cases": nr}, "samples": [p.meta["describe"][:200] for p in progs[:4]]})
    return ctx.finish(LEVEL, cov)


def replay(path):
    rep = json.load(open(path))
    if rep.get("layer") == "E":
        return E.replay_file(path)
    print(json.dumps(rep, indent=1)[:3000])
    return 1

"""C13: generated code is hygienic: user-chosen names never change its meaning."""
import random, json
import refmodel as R, cmpfam as F, fam2, elayer as E
from common import BUILD, REPO, sh, env_with, Undecided
import os, shutil

LEVEL = "proof"
TYPE_NAMES = ["Eq", "Fn", "Option", "Ordering", "Result", "Clone", "Default", "Hash", "Hasher", "H", "T", "Self_", "Some", "Ord", "PartialEq", "Sized", "Formatter",
              # names the generator uses for its own parameters / locals (a tuple struct of that name is also a *value* in scope)
              "source", "o", "rhs", "this", "other", "state", "f", "lhs", "to_index", "_this", "l", "r"]
FIELD_NAMES = ["this", "other", "state", "f", "rhs", "source", "lhs", "o", "to_index", "_eq", "_f", "r#type", "r#match", "r#fn", "l", "r", "_0", "_self_0", "_other_a", "_Ref", "_a", "Xy", "__eq_"]
VARIANT_NAMES = ["Some", "None", "Ok", "Err", "Equal", "Less", "Greater", "Self_", "Option", "Eq", "r#A", "This", "Ordering", "Default"]
PARAM_NAMES = ["H", "T", "F", "Rhs", "Output", "Self_", "Eq", "Fn", "Option", "U", "r#T", "r#type", "r#fn"]
SUBSETS = [["PartialEq"], ["PartialEq", "Eq"], ["PartialEq", "Eq", "PartialOrd", "Ord"], ["PartialEq", "Eq", "PartialOrd", "Ord", "Hash"], ["PartialEq", "Eq", "Hash"]]


def tymap(ty):
    return ty.replace("Option<", "::core::option::Option<").replace("bool", "::core::primitive::bool")


def programs(ctx):
    rng = random.Random(ctx.seed + 13)
    n = 45 if ctx.quick else 700
    out = []
    for i in range(n):
        fn = rng.sample([x for x in FIELD_NAMES if x != "__eq_"], 4)
        vn = rng.sample(VARIANT_NAMES, 4)
        td = F.random_typedef(rng, SUBSETS[i % len(SUBSETS)], fnames=fn, vnames=vn, tymap=tymap, generic_p=0.5)
        tn = rng.choice(TYPE_NAMES)
        pn = rng.choice([p for p in PARAM_NAMES if p.replace("r#", "") != tn.replace("r#", "")])
        td.hostile = {"type": tn, "param": pn}
        p = F.build_prog("p_%04d" % i, td, want=("PartialEq", "PartialOrd", "Ord", "Hash"))
        p.meta["describe"] = "type=%s param=%s fields=%s variants=%s :: %s" % (tn, pn, ",".join(fn), ",".join(vn), p.meta["describe"])
        p.meta["def_lines"] = 3
        p.def_lines = (5, 8)
        out.append(p)
    return out


def canary():
    td = F.TypeDef(False, [F.Variant("X", "tuple", [F.Field(None, "u8", {a: () for a in R.OPS})])], ["PartialEq", "Eq", "PartialOrd", "Ord"])
    td.hostile = {"type": "Eq", "param": "H"}
    p = F.build_prog("p_canary", td, want=("Ord",))
    p.text = p.text.replace("let o = Ord::cmp(x_0, y_0);", "let o = Ord::cmp(y_0, x_0);")
    assert "Ord::cmp(y_0, x_0)" in p.text
    p.def_lines = (5, 8)
    return p


NO_STD = [
    "#[derive_ex::derive_ex(Clone, Copy, Debug, Default, PartialEq, Eq, PartialOrd, Ord, Hash)]\npub struct A<T>(pub T, #[ord(reverse)] pub u8);",
    "#[derive_ex::derive_ex(Clone, Debug, Default, PartialEq, Eq, PartialOrd, Ord, Hash)]\npub enum B<T> { #[default] X, Y { #[ord(key = $.0)] a: (u8, T), #[debug(ignore)] b: u8 }, Z(#[ord(by = kcmp)] #[hash(key = $)] u8) }\npub fn kcmp(a: &u8, b: &u8) -> core::cmp::Ordering { a.cmp(b) }",
    "#[derive_ex::derive_ex(Add, Sub, Mul, AddAssign, Neg, Not, Deref, DerefMut)]\npub struct C(pub i32);",
    "#[derive(Clone)] pub struct D(pub u8);\n#[derive_ex::derive_ex(Add, AddAssign)]\nimpl core::ops::Add<D> for D { type Output = D; fn add(self, r: D) -> D { D(self.0 + r.0) } }",
    "#[derive(derive_ex::Ex)]\n#[derive_ex(PartialEq, Eq, Hash, Debug)]\npub struct E<'a> { #[eq(key = $.len())] pub s: &'a str, #[debug(transparent)] pub n: u8 }",
]


def no_std_check(ctx):
    d = os.path.join(BUILD, "e", "C13", "nostd")
    if os.path.exists(d):
        shutil.rmtree(d)
    os.makedirs(os.path.join(d, "src"))
    open(os.path.join(d, "Cargo.toml"), "w").write('[package]\nname = "nostd"\nversion = "0.0.0"\nedition = "2021"\n\n[dependencies]\nderive-ex = { path = "%s/derive-ex" }\n\n[workspace]\n' % REPO)
    if os.path.exists(os.path.join(REPO, "Cargo.lock")):
        shutil.copy(os.path.join(REPO, "Cargo.lock"), os.path.join(d, "Cargo.lock"))
    mods = []
    for i, t in enumerate(NO_STD):
        mods.append("pub mod m%d {\n%s\n}" % (i, t))
    open(os.path.join(d, "src", "lib.rs"), "w").write("#![no_std]\n#![deny(warnings)]\n" + "\n".join(mods) + "\n")
    p = sh(["cargo", "check", "--offline", "--lib", "-q"], cwd=d, env=env_with(CARGO_TARGET_DIR=os.path.join(BUILD, "e", "target-check")))
    if p.returncode != 0:
        ctx.violation("B:C13:no_std", "programs using derive_ex do not compile under #![no_std]: " + p.stderr[-600:], {"layer": "B", "stderr": p.stderr[-3000:], "lib_rs": open(os.path.join(d, "src", "lib.rs")).read()}, no_input=False)
    return len(NO_STD)


def run(ctx):
    progs = programs(ctx)
    st = E.run_family(ctx, "C13", progs, canary())
    # compile-only part: every trait / shape of the C20 grammar under hostile names, warnings denied
    rng = random.Random(ctx.seed + 131)
    n = 250 if ctx.quick else 4000
    cprogs = []
    for i in range(n):
        names = {"X": rng.choice([t for t in TYPE_NAMES if t not in ("Option", "Sized")]), "T": rng.choice(["H", "T", "F", "Rhs", "Output", "U", "r#type", "r#fn", "r#struct"]), "N": rng.choice(["N", "M", "LEN", "r#match", "lhs", "to_index", "rhs", "source", "other", "state", "f", "this", "o", "_a"]),
                 "a": rng.choice(["'a", "'__b", "'b", "'r", "'state"]).replace("'__b", "'b"), "f": rng.sample(FIELD_NAMES[:22], 4), "v": rng.sample(VARIANT_NAMES, 4)}
        if names["T"].replace("r#", "") == names["X"].replace("r#", ""):
            names["T"] = "U"
        if names["N"] == names["X"] or names["N"] == names["T"]:
            names["N"] = "N"       # a const parameter named like a type in scope is the recorded E0747 finding (observed by its own program)
        cprogs.append(fam2.c20_prog("p_%04d" % i, rng, names=names))
    import elayer as _E
    cprogs.append(_E.Prog("p_kf_const_param_type_name", "#[derive_ex::derive_ex(Clone)]\npub struct X<const Option: usize>(pub [u8; Option]);\n\npub fn replay(_h: &str, _b: &[u8]) -> (bool, String) { (true, String::new()) }\n", [],
                          {"describe": "const parameter named like a prelude type: #[derive_ex(Clone)] struct X<const Option: usize>([u8; Option]);"}))
    # value-namespace names (unit structs, consts) spelled like the parameters of generated fns: a parameter is a pattern, an un-prefixed
    # name there would be resolved as the item. Impl-item entry (all three base forms) and types
    cprogs.append(_E.Prog("p_value_names", "#[derive(Clone)]\npub struct rhs;\n#[derive_ex::derive_ex(Add)]\nimpl core::ops::AddAssign<u8> for rhs { fn add_assign(&mut self, _r: u8) {} }\n"
                          "pub const lhs: u8 = 1;\npub const this: u8 = 2;\npub const other: u8 = 3;\npub const source: u8 = 4;\npub const state: u8 = 5;\npub const f: u8 = 6;\n"
                          "#[derive(Clone)]\npub struct P2;\n#[derive_ex::derive_ex(Mul, MulAssign)]\nimpl core::ops::Mul<u8> for P2 { type Output = P2; fn mul(self, _r: u8) -> P2 { self } }\n"
                          "#[derive_ex::derive_ex(Clone, Debug, PartialEq, Eq, PartialOrd, Ord, Hash, Default, Add, AddAssign, Neg)]\npub struct V(pub i8);\n#[derive_ex::derive_ex(Clone, Debug, PartialEq, Eq, PartialOrd, Ord, Hash, Default)]\npub enum W { #[default] A, B(u8) }\n"
                          "\npub fn replay(_h: &str, _b: &[u8]) -> (bool, String) { (true, String::new()) }\n", [],
                          {"describe": "unit struct `rhs`, consts `lhs` `this` `other` `source` `state` `f` in scope of derived operator impls (impl items and types)"}))
    rejected = 0
    for ci in range(0, len(cprogs), 250):
        c = E.ECrate("C13", "s%02d" % (ci // 250), fam2.C20_SUPPORT, strict=True)
        for p in cprogs[ci:ci + 250]:
            c.add(p)
        c.write()
        rej = c.triage()
        for p in c.progs:
            if p.name in rej:
                d0 = rej[p.name][0]
                if "derive_ex" in d0["rendered"] and ("cannot specify" in d0["message"] or "cannot be used" in d0["message"] or "must be used" in d0["message"] or "does not exist" in d0["message"]):
                    continue     # an error of derive_ex's own (misuse produced by the grammar), not a hygiene matter
                rejected += 1
                ctx.violation("E:C13:names:%s" % p.meta["describe"][:300], "renamed program does not compile: %s" % d0["message"],
                              {"layer": "E", "program": p.text, "harness": "", "meta": p.meta, "rustc": rej[p.name][:3], "extra_support": fam2.C20_SUPPORT, "strict": True})
    ns = no_std_check(ctx)
    ctx.assumptions += [
        "behaviour half: the C01/C06 contracts (eq, partial_cmp, cmp, Hash feed == documented rule) are re-proved by Kani on programs whose type, parameter, field and variant names are drawn from a hostile dictionary (names the expansion introduces, prelude names, raw identifiers) and whose item lives under a glob import that shadows the prelude (Option, Some, None, Eq, Fn, Clone, Ordering, Result, Default, core, std, ...)",
        "compile half: the C20 grammar (every derivable trait) under the same renamings, warnings denied, decided by rustc; #![no_std] programs compiled metadata-only (bounded: the listed programs)",
        "bounded by the dictionary; names starting with a double underscore are excluded (reserved for the generator)",
    ]
    cov = dict(st)
    cov.update({"obligations": st["kani_harnesses"], "discharged": st["kani_verified"],
                "checker_cmd": "cargo kani -Z function-contracts -j 16 --output-format terse (crates build/e/C13/c*); cargo check (crates build/e/C13/s*, nostd)",
                "trusted_base": ["Kani 0.68.0 / CBMC 6.11", "rustc"], "functions_under_contract": ["w_eq/w_partial_cmp/w_cmp/w_feed wrappers of every renamed program"],
                "bounded": {"renamed_compile_only_programs": len(cprogs), "rejected": rejected, "no_std_programs": ns},
                "samples": [p.meta["describe"][:250] for p in progs[:3]]})
    return ctx.finish(LEVEL, cov)


def replay(path):
    rep = json.load(open(path))
    if rep.get("strict"):
        from props import C20
        return C20.replay(path)
    return E.replay_file(path)

"""C17: derive_ex(Eq) is refused unless every compared component is Eq."""
import random, json, itertools, re as _re
import elayer as E, glayer, refmodel as R

LEVEL = "other"
G_UNITS = {"cmp_select": ["build_eq_expr", "build_eq_assertion"], "cmp_flags": ["HelperAttributesForCompareOp::is_ignore"],
           "kinds": ["HelperAttributeKinds::is_match_cmp_attr"]}      # which helper attributes Eq reads: eq and ord, nothing of partial_eq / partial_ord

SUPPORT = r'''
/// PartialEq-only (float-like) component
#[derive(Debug, Clone, Copy, PartialEq, PartialOrd)]
pub struct NE(pub u8);
/// generic, PartialEq-only whatever the argument
#[derive(Debug, Clone, Copy, PartialEq)]
pub struct Pe<T>(pub T, pub f64);
/// generic, Eq when the argument is
#[derive(Debug, Clone, Copy, PartialEq, Eq)]
pub struct We<T>(pub T);
/// float-like (PartialEq only) but dereferences to an Eq type: an assertion made with method-call syntax would auto-deref and pass
#[derive(Debug, Clone, Copy)]
pub struct Db(pub u64);
impl PartialEq for Db { fn eq(&self, o: &Db) -> bool { f64::from_bits(self.0) == f64::from_bits(o.0) } }
impl core::ops::Deref for Db { type Target = u64; fn deref(&self) -> &u64 { &self.0 } }
pub fn key_db<T>(_x: &T) -> Db { Db(0) }
pub fn key_eq<T>(_x: &T) -> u8 { 0 }
pub fn key_ne<T>(_x: &T) -> NE { NE(0) }
pub fn key_f<T>(_x: &T) -> f32 { 0.0 }
/// key functions named like helpers the generator declares next to the key expression
pub fn _eq<T>(_x: &T) -> NE { NE(0) }
pub fn _f<T>(_x: &T) -> u8 { 0 }
pub fn by_b<T>(_a: &T, _b: &T) -> bool { true }
pub fn by_o<T>(_a: &T, _b: &T) -> core::cmp::Ordering { core::cmp::Ordering::Equal }
pub fn by_po<T>(_a: &T, _b: &T) -> Option<core::cmp::Ordering> { None }
'''
# per-field configurations: (attribute text, component that must be Eq: 'field' | 'eq' | 'ne' | None)
CONFIGS = [
    ("", "field"), ("#[eq(ignore)]", None), ("#[ord(ignore)]", None),
    ("#[eq(key = key_eq(&$))]", "eq"), ("#[eq(key = key_ne(&$))]", "ne"), ("#[eq(key = key_f(&$))]", "ne"),
    ("#[ord(key = key_eq(&$))]", "eq"), ("#[ord(key = key_ne(&$))]", "ne"),
    ("#[eq(by = by_b)]", None), ("#[ord(by = by_o)]", None),
    ("#[eq(key = key_eq(&$))] #[ord(key = key_ne(&$))]", "eq"),      # eq is more specific than ord
    ("#[eq(key = key_ne(&$))] #[ord(key = key_eq(&$))]", "ne"),
    ("#[eq(by = by_b)] #[ord(key = key_ne(&$))]", None),
    ("#[partial_eq(ignore)] #[eq(ignore)]", None),
    ("#[eq(key = key_ne(&$))] #[ord(by = by_o)]", "ne"), ("#[eq(key = key_eq(&$))] #[ord(by = by_o)]", "eq"), ("#[eq(key = key_f(&$))] #[ord(key = key_eq(&$))]", "ne"),
    ("#[eq(by = by_b)] #[ord(by = by_o)]", None), ("#[eq(key = _eq(&$))]", "ne"), ("#[eq(key = key_db(&$))]", "ne"), ("#[ord(key = key_db(&$))]", "ne"),
    # a key / by on a less general attribute that PartialEq follows but Eq does not look at: the documented answer is derive_ex's own error
    # (the default implementation of Eq cannot be used), whatever the field type - never an Eq that asserts something `==` does not compare
    ("#[partial_ord(key = key_ne(&$))]", "refuse"), ("#[partial_ord(key = key_eq(&$))]", "refuse"), ("#[partial_ord(by = by_po)]", "refuse"),
    ("#[partial_eq(key = key_f(&$))]", "refuse"), ("#[partial_eq(by = by_b)]", "refuse"),
    ("#[partial_ord(key = key_ne(&$))] #[eq(key = key_eq(&$))]", "eq"), ("#[partial_eq(key = key_ne(&$))] #[eq(key = key_eq(&$))]", "ne"), ("#[partial_ord(by = by_po)] #[eq(by = by_b)]", None), ("#[ord(key = _eq(&$))]", "ne"), ("#[eq(key = _f(&$))]", "eq"), ("#[ord(key = key_ne(&$))] #[partial_eq(key = key_eq(&$))]", "eq"),
    # what `==` compares decides (PartialEq takes partial_eq > eq > partial_ord > ord): a float-like key there is refused whatever eq / ord say
    ("#[eq(key = key_eq(&$))] #[partial_eq(key = key_ne(&$))]", "ne"), ("#[ord(key = key_eq(&$))] #[partial_eq(key = key_f(&$))]", "ne"), ("#[ord(by = by_o)] #[partial_ord(key = key_ne(&$))]", "ne"),
    ("#[eq(by = by_b)] #[partial_eq(key = key_ne(&$))]", "ne"), ("#[ord(key = key_eq(&$))] #[partial_ord(key = key_ne(&$))]", "ne"), ("#[eq(key = key_ne(&$))] #[partial_eq(by = by_b)]", None),
    ("#[eq(key = key_ne(&$))] #[partial_eq(key = key_eq(&$))]", "eq"), ("#[ord(key = key_ne(&$))] #[partial_ord(key = key_eq(&$))]", "eq"), ("#[ord(key = key_ne(&$))] #[partial_ord(by = by_po)]", None),
]
FIELD_TYPES = [("u8", True), ("NE", False), ("f32", False), ("Option<NE>", False), ("Vec<u8>", True), ("T", None), ("Db", False), ("Box<f32>", False)]


EXTRA = [  # (derive list, item, must compile)
    ("PartialEq, Eq, Hash", "pub struct X { pub id: u32, #[hash(ignore)] pub w: NE }", False),
    ("PartialEq, Eq, Hash", "pub enum X<T> { A(#[hash(ignore)] T, u8), B }", None),       # instantiated with NE: must be refused
    ("PartialEq, Eq, Hash", "pub struct X { pub id: u32, #[hash(ignore)] pub w: u8 }", True),
    ("PartialEq, Eq, Hash", "pub struct X { pub id: u32, #[eq(ignore)] pub w: NE }", True),
    # Eq alone through #[derive(Ex)] next to a standard PartialEq: a `partial_eq(by = ..)` steers nothing there and exempts nothing
    ("@derive:Eq", "pub struct X { pub id: u32, #[partial_eq(by = by_b)] #[eq(key = key_f(&$))] pub w: f32 }", False),
    ("@derive:Eq", "pub struct X { pub id: u32, #[partial_ord(by = by_po)] #[ord(key = key_ne(&$))] pub w: u8 }", False),
    ("@derive:Eq", "pub struct X { pub id: u32, #[partial_eq(by = by_b)] #[eq(key = key_eq(&$))] pub w: f32 }", True),
    ("PartialEq, Eq, Hash", "pub struct X { pub id: u32, #[hash(key = key_eq(&$))] #[eq(key = key_ne(&$))] pub w: u8 }", False),
    ("PartialEq, Eq, Hash", "pub struct X { pub id: u32, #[hash(by = hby)] #[eq(key = key_eq(&$))] pub w: NE }", True),
    # repaired (76c845a, recorded as a finding before): == goes through the more specific partial_ord key (a float), the Eq assertion used to look at the ord key only
    ("Ord, PartialOrd, Eq, PartialEq", "pub struct X(#[ord(key = $.to_bits())] #[partial_ord(key = $)] pub f64);", False),
]


def programs(ctx):
    rng = random.Random(ctx.seed + 17)
    out = []
    i = 0
    combos = list(itertools.product(CONFIGS, FIELD_TYPES, ("struct", "tuple", "enum", "enum_tuple"), (False, True)))
    if ctx.quick:
        combos = [c for c in combos if "_eq(" in c[0][0] or "_f(" in c[0][0]][:24] + [c for c in combos if (c[1][0] == "Db" and c[0][0] == "") or "key_db" in c[0][0]][:16] + [c for c in combos if (c[0][1] == "refuse" or ("partial_" in c[0][0] and ("eq(" in c[0][0].replace("partial_eq(", "") or "ord(" in c[0][0].replace("partial_ord(", "")))) and c[1][0] in ("u8", "T") and c[2] in ("struct", "enum_tuple")] + rng.sample(combos, 130) + [c for c in combos if c[2] == "enum_tuple" and c[1][0] in ("u8", "NE") and not c[3]]
    for (attr, comp), (fty, fty_eq), shape, generic_inst_ne in combos:
        generic = fty == "T"
        if generic:
            # generic field instantiated with a non-Eq or an Eq type: the impl must exist exactly when the component is Eq
            inst = "NE" if generic_inst_ne else "u8"
            fty_is_eq = not generic_inst_ne
        else:
            if generic_inst_ne:
                continue
            inst, fty_is_eq = None, fty_eq
        must_be_eq = {"field": fty_is_eq, "eq": True, "ne": False, None: True, "refuse": False}[comp]
        g = "<T>" if generic else ""
        if shape == "struct":
            item = "pub struct X%s { %s pub a: %s, pub z: u8 }" % (g, attr, fty)
        elif shape == "tuple":
            item = "pub struct X%s(pub u8, %s pub %s);" % (g, attr, fty)
        elif shape == "enum":
            item = "pub enum X%s { A, B { z: u8, %s a: %s }, C(u8) }" % (g, attr, fty)
        else:
            # tuple variant with an ignored field of the *opposite* Eq-ness in front: the assertion must look at the compared field
            lead = "NE" if (fty_is_eq if not generic else not generic_inst_ne) else "u8"
            item = "pub enum X%s { A, B(#[eq(ignore)] %s, %s %s), C(u8) }" % (g, lead, attr, fty)
        # the companion PartialEq is derived by derive_ex as well (same attributes), so only Eq's own assertion decides
        text = "#[derive_ex::derive_ex(Eq, PartialEq)]\n%s\n\npub fn need_eq<E: Eq>() {}\npub fn probe() { need_eq::<X%s>(); }\npub fn replay(h: &str, b: &[u8]) -> (bool, String) { (true, String::new()) }\n" % (
            item, ("<%s>" % inst) if generic else "")
        p = E.Prog("p_%04d" % i, text, [], {"describe": "%s  [component %s, must %s]" % (item, comp, "compile" if must_be_eq else "be refused")}, expect_compile=must_be_eq)
        p.meta["generic"] = generic
        out.append(p)
        i += 1
    # two compared fields of the SAME type, each with its own configuration, both orders: every compared component counts on its own
    pairs = [(c1, c2, fty, shape) for c1 in CONFIGS for c2 in CONFIGS for fty in (("NE", False), ("f32", False), ("u8", True), ("T", None)) for shape in ("struct", "tuple", "enum")]
    plain = CONFIGS[0]
    always = [q for q in pairs if (q[0] is plain or q[1] is plain) and q[2][0] in ("NE", "f32")]       # a plain field next to any configured one
    for (c1, c2, (fty, fty_eq), shape) in (always + rng.sample(pairs, 110) if ctx.quick else pairs):
        generic = fty == "T"
        fty_is_eq = False if generic else fty_eq        # generic: instantiated with NE
        need = [{"field": fty_is_eq, "eq": True, "ne": False, None: True, "refuse": False}[c[1]] for c in (c1, c2)]
        must_be_eq = all(need)
        g = "<T>" if generic else ""
        if shape == "struct":
            item = "pub struct X%s { %s pub a: %s, %s pub b: %s }" % (g, c1[0], fty, c2[0], fty)
        elif shape == "tuple":
            item = "pub struct X%s(%s pub %s, %s pub %s);" % (g, c1[0], fty, c2[0], fty)
        else:
            item = "pub enum X%s { A, B { %s a: %s, z: u8, %s b: %s } }" % (g, c1[0], fty, c2[0], fty)
        text = "#[derive_ex::derive_ex(Eq, PartialEq)]\n%s\n\npub fn need_eq<E: Eq>() {}\npub fn probe() { need_eq::<X%s>(); }\npub fn replay(h: &str, b: &[u8]) -> (bool, String) { (true, String::new()) }\n" % (
            item, "<NE>" if generic else "")
        p = E.Prog("p_%04d" % i, text, [], {"describe": "%s  [components %s + %s, must %s]" % (item, c1[1], c2[1], "compile" if must_be_eq else "be refused")}, expect_compile=must_be_eq)
        p.meta["generic"] = generic
        out.append(p)
        i += 1
    # explicit bound(..) lists at every level, on default-compared generic fields: whichever level switches the default `FieldTy: Eq`
    # bound off (or keeps it with `..`), a PartialEq-only component must still be refused and an Eq one accepted
    LEVELS = ["field:derive_ex(Eq(bound(%s)))", "field:derive_ex(bound(%s))", "field:eq(bound(%s))", "field:ord(bound(%s))", "variant:derive_ex(Eq(bound(%s)))", "variant:eq(bound(%s))",
              "type:eq(bound(%s))", "type:ord(bound(%s))", "args:Eq(bound(%s))", "args:shared(%s)"]
    BS = ["T", "T: Eq", "T, ..", "..", "T: Eq + Copy"]
    FT = [("Pe<T>", False), ("We<T>", True), ("Option<Pe<T>>", False), ("(T, f32)", False), ("[T; 2]", True), ("Vec<We<T>>", True)]
    lv = list(itertools.product(LEVELS, BS, FT, ("struct", "tuple", "enum")))
    if ctx.quick:
        lv = [q for q in lv if q[0].startswith("field:derive_ex") and q[2][0] == "Pe<T>"] + rng.sample(lv, 120)
    for (level, b, (fty, fty_eq), shape) in lv:
        where, a = level.split(":", 1)
        if where == "variant" and shape != "enum":
            continue
        fa = "#[%s] " % (a % b) if where == "field" else ""
        va = "#[%s] " % (a % b) if where == "variant" else ""
        ta = "#[%s]\n" % (a % b) if where == "type" else ""
        args = {"args:Eq(bound(%s))": "Eq(bound(%s)), PartialEq" % b, "args:shared(%s)": "Eq, PartialEq, bound(%s)" % b}.get(level, "Eq, PartialEq")
        if shape == "struct":
            item = "pub struct X<T> { pub id: u32, %spub x: %s }" % (fa, fty)
        elif shape == "tuple":
            item = "pub struct X<T>(pub u32, %spub %s);" % (fa, fty)
        else:
            item = "pub enum X<T> { A, %sB { id: u32, %sx: %s }, C(u8) }" % (va, fa, fty)
        text = "#[derive_ex::derive_ex(%s)]\n%s%s\n\npub fn need_eq<E: Eq>() {}\npub fn probe() { need_eq::<X<u8>>(); }\npub fn replay(h: &str, b: &[u8]) -> (bool, String) { (true, String::new()) }\n" % (args, ta, item)
        p = E.Prog("p_%04d" % i, text, [], {"describe": "derive_ex(%s) %s%s  [explicit bounds at %s, field type %s, must %s]" % (args, ta.strip() + " " if ta else "", item, where, fty, "compile" if fty_eq else "be refused")}, expect_compile=fty_eq)
        p.meta["generic"] = True
        out.append(p)
        i += 1
    # ignored is ignored for `==` as well: a field that the Eq assertion exempts because of an `ignore` on ANY of the attributes that reach
    # Eq must not be compared by the derived `==` through a key on a more specific attribute (float keys: a NaN would break reflexivity)
    for j, (attrs, fty, mk) in enumerate([("#[eq(key = key_f(&$))] #[ord(ignore)]", "u8", "1, 2"), ("#[partial_eq(key = key_f2(&$))] #[eq(ignore)]", "u8", "1, 2"),
                                          ("#[partial_ord(key = key_f2(&$))] #[ord(ignore)]", "u8", "3, 4"), ("#[eq(by = by_ne)] #[ord(ignore)]", "u8", "5, 6")]):
        text = ("#[derive_ex::derive_ex(Eq, PartialEq)]\npub struct X { pub id: u8, %s pub w: %s }\n#[derive_ex::derive_ex(Eq, PartialEq)]\npub enum E { A(u8, %s %s), B }\n"
                "pub fn key_f2<T: Copy + Into<f32>>(x: &T) -> f32 { if (*x).into() == 1.0 { f32::NAN } else { (*x).into() } }\npub fn by_ne<T: PartialEq>(a: &T, b: &T) -> bool { a != b }\n"
                "pub fn need_eq<T: Eq>() {}\npub fn ncheck() -> Vec<String> { need_eq::<X>(); need_eq::<E>(); let mut out = Vec::new(); let (a, b) = (%s);\n"
                "    if (X { id: 0, w: a }) != (X { id: 0, w: b }) || (X { id: 0, w: a }) != (X { id: 0, w: a }) { out.push(\"struct: the ignored (Eq-exempt) field takes part in ==\".to_string()); }\n"
                "    if E::A(0, a) != E::A(0, b) || E::A(0, a) != E::A(0, a) { out.push(\"enum: the ignored (Eq-exempt) field takes part in ==\".to_string()); }\n    out }\n"
                "pub fn replay(h: &str, b: &[u8]) -> (bool, String) { (true, String::new()) }\n" % (attrs, fty, attrs, fty, mk))
        p = E.Prog("p_ign%d" % j, text, [], {"describe": "pub struct X { id: u8, %s w: %s } (and the same as enum variant field)  [exempt from the Eq assertion by ignore: == must ignore it too]" % (attrs, fty)}, ncheck=True)
        p.meta["generic"] = False
        out.append(p)
    for (lst, item, must) in EXTRA:
        generic = "<T>" in item
        must_c = False if must is None else must
        head = ("#[derive(derive_ex::Ex, PartialEq)]\n#[derive_ex(%s)]" % lst.split(":", 1)[1]) if lst.startswith("@derive:") else "#[derive_ex::derive_ex(%s)]" % lst
        text = "%s\n%s\n\npub fn hby<H: core::hash::Hasher>(_x: &NE, _h: &mut H) {}\npub fn need_eq<E: Eq>() {}\npub fn probe() { need_eq::<X%s>(); }\npub fn replay(h: &str, b: &[u8]) -> (bool, String) { (true, String::new()) }\n" % (
            head, item, "<NE>" if generic else "")
        p = E.Prog("p_%04d" % i, text, [], {"describe": "derive_ex(%s) %s  [must %s]" % (lst, item, "compile" if must_c else "be refused")}, expect_compile=must_c)
        p.meta["generic"] = generic
        out.append(p)
        i += 1
    return out


def run(ctx):
    progs = programs(ctx)
    accepted_wrongly = refused_wrongly = 0
    n_neg = sum(1 for p in progs if not p.expect_compile)
    for ci in range(0, len(progs), 150):
        c = E.ECrate("C17", "c%02d" % (ci // 150), SUPPORT)
        for p in progs[ci:ci + 150]:
            c.add(p)
        c.write()
        rej = c.triage()
        for p in c.progs:
            diags = rej.get(p.name)
            if p.expect_compile and diags:
                refused_wrongly += 1
                ctx.violation("E:C17:refused:" + p.meta["describe"], "every compared component is Eq but the program is refused: " + diags[0]["message"],
                              {"layer": "E", "program": p.text, "harness": "", "meta": p.meta, "rustc": diags[:2], "extra_support": SUPPORT})
            elif not p.expect_compile:
                if not diags:
                    accepted_wrongly += 1
                    ctx.violation("E:C17:accepted:" + p.meta["describe"], "a compared component is not Eq, yet derive_ex(Eq) compiles: the type silently became Eq",
                                  {"layer": "E", "program": p.text, "harness": "", "meta": p.meta, "extra_support": SUPPORT})
                elif not any(("Eq" in d["message"] and ("not satisfied" in d["message"] or "E0277" == d.get("code") or _re.search(r"\[components? [^\]]*refuse", p.meta["describe"]))) for d in diags):
                    ctx.violation("E:C17:wrong-reason:" + p.meta["describe"], "refused, but not because a component lacks Eq: " + diags[0]["message"],
                                  {"layer": "E", "program": p.text, "harness": "", "meta": p.meta, "rustc": diags[:2], "extra_support": SUPPORT})
        if any(p.ncheck and p.name not in c.excluded for p in c.progs):
            for pn, msgs in c.run_native().items():
                pp = next(q for q in c.progs if q.name == pn)
                for msg in msgs:
                    ctx.violation("E:C17:native:" + pp.meta["describe"] + ":" + msg[:80], "native run on the real expansion: " + msg, {"layer": "E", "program": pp.text, "harness": "ncheck", "meta": pp.meta, "extra_support": SUPPORT, "native": msg})
    g = glayer.run_g(ctx, G_UNITS)
    ctx.assumptions += [
        "the force of the Eq assertion is rustc's: the emitted `_eq<T: Eq + ?Sized>` bound is a machine-checked contract on the generated code and the verifier discharging it is rustc's trait solver; the check compares rustc's accept/reject (cargo check) of every program with the reference rule",
        "layer G (Verus): build_eq_expr emits the assertion for the field, or for the selected key applied to it, and none for eq/ord `by`; Err iff a key/by exists that does not affect Eq (contracts/cmp_select.rs, eq_checker_ok)",
        "programs: %d per-field configurations x field types (Eq, PartialEq-only, f32, generic instantiated both ways) x struct/tuple/enum-variant placement" % len(CONFIGS),
    ]
    cov = {"explanation": "rustc accept/reject of generated programs vs the reference rule + Verus contract on build_eq_expr",
           "evaluations": len(progs), "distinct_nontrivial": n_neg, "rule": "non-trivial = a program that must be refused (a compared component is PartialEq-only)",
           "samples": [p.meta["describe"] for p in progs[:4]], "programs": len(progs), "must_be_refused": n_neg, "accepted_wrongly": accepted_wrongly, "refused_wrongly": refused_wrongly,
           "obligations": g["obligations"], "discharged": g["discharged"], "functions_under_contract": g["functions_under_contract"]}
    return ctx.finish(LEVEL, cov)


def replay(path):
    return E.replay_file(path)

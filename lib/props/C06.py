"""C06: Hash feeds exactly the effective inputs of non-ignored fields, in order."""
import random
import refmodel as R, cmpfam as F, elayer as E, glayer

LEVEL = "proof"
SUBSETS = [["Hash"], ["PartialEq", "Eq", "Hash"], ["PartialEq", "Eq", "PartialOrd", "Ord", "Hash"], ["PartialEq", "Hash"]]
G_UNITS = {"cmp_flags": ["CompareOp::is_effects_to", "HelperAttributesForCompareOp::is_ignore"], "cmp_select": ["build_hash_expr", "ItemSourceKind::self_of"], "cmp_bodies": ["build_hash_body", "build_compare_op"], "kinds": ["HelperAttributeKinds::is_match_cmp_attr", "HelperAttributesForCompareOp::from_attrs"]}


G_UNITS["implitem"] = ["is_root_derive_ex_attr"]      # which sibling attributes belong to the request (split lists)

def programs(ctx):
    rng = random.Random(ctx.seed + 6)
    n = 70 if ctx.quick else 900
    out = []
    for i in range(n):
        td = F.random_typedef(rng, SUBSETS[i % len(SUBSETS)], allow_p=False, max_fields=3)
        if td.entry == "attr" and len(td.derived) > 1 and i % 3 == 0:
            # Hash requested by a stacked sibling attribute (the eq / ord helper attributes are shared with the first list)
            td.entry = ["attr_split", "attr_split_colon", "attr_split_last"][(i // 3) % 3]
            if "Hash" in td.derived:
                td.derived = [t for t in td.derived if t != "Hash"] + ["Hash"]      # Hash comes last: it lands in the sibling
        out.append(F.build_prog("p_%04d" % i, td, want=("Hash",)))
    plain = {a: () for a in R.OPS}
    td = F.TypeDef(False, [F.Variant("X", "tuple", [F.Field(None, "u8", plain) for _ in range(12)])], ["Hash"])
    out.append(F.build_prog("p_wide_tuple", td, want=("Hash",)))
    td = F.TypeDef(True, [F.Variant("A", "unit", []), F.Variant("B", "named", [F.Field("abcdefghijklmnop"[k], "u8", plain) for k in range(13)])], ["Hash", "PartialEq"])
    out.append(F.build_prog("p_wide_variant", td, want=("Hash",)))
    return out


def canary():
    td = F.TypeDef(False, [F.Variant("X", "tuple", [F.Field(None, "u8", {a: () for a in R.OPS}), F.Field(None, "u8", {a: () for a in R.OPS})])], ["Hash"])
    p = F.build_prog("p_canary", td, want=("Hash",))
    p.text = p.text.replace("Hash::hash(x_0, h); Hash::hash(x_1, h);", "Hash::hash(x_1, h); Hash::hash(x_0, h);")
    assert "Hash::hash(x_1, h); Hash::hash(x_0, h);" in p.text
    return p


def run(ctx):
    progs = programs(ctx)
    st = E.run_family(ctx, "C06", progs, canary())
    g = glayer.run_g(ctx, G_UNITS)
    ctx.assumptions += [
        "layer E: Kani 0.68 / CBMC 6.11; the feed is observed through a recording Hasher that tags every write_* call (support.rs Rec, 32-byte window + exact length)",
        "the two consequences in the statement (equal effective inputs => identical feeds, changed input => changed feed) follow from feed == reference feed, which is a function of the effective inputs only and is injective on them up to the field types' own Hash impls",
        "programs are an enumerated family (seeded), shapes <= 3 fields / 4 variants",
    ]
    cov = dict(st)
    cov.update({
        "obligations": st["kani_harnesses"] + g["obligations"], "discharged": st["kani_verified"] + g["discharged"],
        "checker_cmd": "cargo kani -Z function-contracts -j 16 --output-format terse (crates build/e/C06/*) ; verus build/g/{cmp_flags,cmp_select}.rs",
        "trusted_base": ["Kani 0.68.0 / CBMC 6.11", "rustc (proc-macro expansion of the real /repo/derive-ex)", "Verus/Z3 for layer G"],
        "functions_under_contract": ["w_feed wrapper of the generated Hash::hash of every program (proof_for_contract)"] + g["functions_under_contract"],
        "g_units": g["units"], "samples": [p.meta["describe"] for p in progs[:5]],
    })
    return ctx.finish(LEVEL, cov)


def replay(path):
    return E.replay_file(path)

"""C08: operators derived from a struct act field-wise in all reference forms."""
import random
import fam2, elayer as E

LEVEL = "proof"
ALL = fam2.BINOPS + [b + "Assign" for b in fam2.BINOPS] + ["Neg", "Not"]


def programs(ctx):
    out = []
    if ctx.quick:
        shapes = [("unit", 0, False), ("tuple", 2, False), ("named", 3, True)]
    else:
        shapes = [(k, n, g) for k in ("tuple", "named") for n in range(0, 5) for g in (False, True) if not (g and n == 0)] + [("unit", 0, False)]
    for i, (kind, n, g) in enumerate(shapes):
        out.append(fam2.c08_prog("p_%04d" % i, kind, n, ALL, generic=g))
    # every operator trait requested on its own (no counterpart on the same type that could hide a mix-up between two of them)
    for j, op in enumerate(ALL):
        out.append(fam2.c08_prog("p_s%02d" % j, ["tuple", "named"][j % 2], 2, [op]))
    # explicit bound(..) arguments (per entry, shared, nested on a field) must not change what the operators do
    some = ["Sub", "SubAssign", "Shl", "ShlAssign", "Add", "AddAssign", "Neg"] if ctx.quick else ALL
    for j, (mode, kind) in enumerate([("entry", "tuple"), ("shared", "named"), ("field", "tuple")] + ([] if ctx.quick else [("entry", "named"), ("shared", "tuple"), ("field", "named")])):
        out.append(fam2.c08_prog("p_%04d" % (len(shapes) + j), kind, 2, some, bounds=mode))
    for j, (rp, kind) in enumerate([("packed", "tuple"), ("C, packed", "named")] + ([] if ctx.quick else [("packed(1)", "named"), ("C", "tuple"), ("transparent", "tuple1")])):
        if kind == "tuple1":
            out.append(fam2.c08_prog("p_r%02d" % j, "tuple", 1, some, repr=rp))
        else:
            out.append(fam2.c08_prog("p_r%02d" % j, kind, 2, some, repr=rp))
    out.append(fam2.c08_prog("p_of0", "named", 3, some, other_first=("Debug", "#[debug(ignore)]")))
    out.append(fam2.c08_prog("p_of1", "tuple", 2, some, other_first=("Debug", "#[debug(ignore)]")))
    # `Self` in bound(..) predicates and in field types: the impls for `&X` must still be about X
    text = ("pub trait Tr {}\npub struct Tag<W>(pub core::marker::PhantomData<W>, pub L);\n"
            "impl<W> core::ops::Neg for Tag<W> { type Output = Tag<W>; fn neg(self) -> Tag<W> { Tag(self.0, -self.1) } }\n"
            "impl<'a, W> core::ops::Neg for &'a Tag<W> { type Output = Tag<W>; fn neg(self) -> Tag<W> { Tag(self.0, -self.1) } }\n"
            "#[derive_ex::derive_ex(Add, AddAssign, Neg, bound(Self: Tr, ..))]\n#[derive(Clone, Copy, Debug, PartialEq)]\npub struct S<T>(pub L, pub T);\nimpl Tr for S<L> {}\n"
            "#[derive_ex::derive_ex(Neg)]\npub struct P { pub t: Tag<Self>, pub l: L }\n\n"
            "pub fn ncheck() -> Vec<String> { let mut out = Vec::new(); let a = S(L { v: 3, n: 0 }, L { v: 5, n: 0 }); let b = S(L { v: 7, n: 0 }, L { v: 9, n: 0 });\n"
            "    if &a + &b != a + b || &a + b != a + b || a + &b != a + b || -&a != -a { out.push(\"reference forms differ from the owned form\".to_string()); }\n"
            "    let p = P { t: Tag(core::marker::PhantomData, L { v: 1, n: 0 }), l: L { v: 2, n: 0 } }; let q = -&p; let r = -p; if q.l != r.l || q.t.1 != r.t.1 { out.push(\"-&P differs from -P\".to_string()); }\n    out }\n"
            "pub fn replay(_h: &str, _b: &[u8]) -> (bool, String) { (true, String::new()) }\n")
    out.append(E.Prog("p_self_in_bounds", text, [], {"describe": "Self in bound(..) and in a field type: derive_ex(Add, AddAssign, Neg, bound(Self: Tr, ..)) struct S<T>(L, T); derive_ex(Neg) struct P { t: Tag<Self>, l: L }"}, ncheck=True))
    rp = "\npub fn replay(_h: &str, _b: &[u8]) -> (bool, String) { (true, String::new()) }\n"
    out.append(E.Prog("p_kf_unsized_tail", "#[derive_ex::derive_ex(Sub, SubAssign, Neg)]\npub struct S<T: ?Sized>(pub L, pub T);\n" + rp, [], {"describe": "derive_ex(Sub, SubAssign, Neg) struct S<T: ?Sized>(L, T);"}))
    out.append(E.Prog("p_kf_self_projection_field", "pub trait TrA { type A; }\nimpl<T> TrA for S2<T> { type A = T; }\n#[derive_ex::derive_ex(Add)]\npub struct S2<T>(pub <Self as TrA>::A);\n" + rp, [], {"describe": "trait TrA { type A; } impl<T> TrA for S2<T> { type A = T; } derive_ex(Add) struct S2<T>(<Self as TrA>::A);"}))
    out.append(E.Prog("p_kf_assoc_output", "pub trait Measure { type Output; }\n#[derive_ex::derive_ex(Sub, Neg)]\npub struct S<T: Measure>(pub T, pub T::Output);\n" + rp, [], {"describe": "trait Measure { type Output; } derive_ex(Sub, Neg) struct S<T: Measure>(T, T::Output);"}))
    # `Self` in an inline parameter bound and in the item's own where-clause (all eight forms exist and agree with the owned form)
    text = ("pub trait TagOf<W> {}\nimpl TagOf<Q<L>> for L {}\nimpl TagOf<R<L, 2>> for L {}\n"
            "#[derive_ex::derive_ex(Sub, SubAssign, Neg, Not)]\n#[derive(Clone, Copy, Debug, PartialEq)]\npub struct Q<T: TagOf<Self>>(pub T, pub T);\n"
            "#[derive_ex::derive_ex(Shl, ShlAssign, Neg)]\n#[derive(Clone, Copy, Debug, PartialEq)]\npub struct R<T: Copy, const N: usize> where T: TagOf<Self>, [u8; N]: Sized { pub a: T, pub b: T }\n\n"
            "pub fn ncheck() -> Vec<String> { let mut out = Vec::new(); let l = |v: u8| L { v, n: 0 }; let a = Q(l(3), l(5)); let b = Q(l(7), l(9));\n"
            "    if &a - &b != a - b || &a - b != a - b || a - &b != a - b || -&a != -a || !&a != !a { out.push(\"Q: reference forms differ from the owned form\".to_string()); }\n"
            "    let mut c = a; c -= b; let mut d = a; d -= &b; if c != a - b || d != a - b { out.push(\"Q: assign forms differ from the owned binary form\".to_string()); }\n"
            "    let a = R::<L, 2> { a: l(3), b: l(5) }; let b = R::<L, 2> { a: l(1), b: l(2) };\n"
            "    if &a << &b != a << b || &a << b != a << b || a << &b != a << b || -&a != -a { out.push(\"R: reference forms differ from the owned form\".to_string()); }\n"
            "    let mut c = a; c <<= b; let mut d = a; d <<= &b; if c != a << b || d != a << b { out.push(\"R: assign forms differ from the owned binary form\".to_string()); }\n    out }\n"
            "pub fn replay(_h: &str, _b: &[u8]) -> (bool, String) { (true, String::new()) }\n")
    out.append(E.Prog("p_self_in_param_bounds", text, [], {"describe": "Self in an inline parameter bound / own where-clause: derive_ex(Sub, SubAssign, Neg, Not) struct Q<T: TagOf<Self>>(T, T); derive_ex(Shl, ShlAssign, Neg) struct R<T: Copy, const N: usize> where T: TagOf<Self> { a: T, b: T }"}, ncheck=True))
    return out


def canary():
    p = fam2.c08_prog("p_canary", "tuple", 2, ["Sub"])
    p.text = p.text.replace("fop(9, x.0, y.0)", "fop(9, y.0, x.0)")
    assert "fop(9, y.0, x.0)" in p.text
    return p


def run(ctx):
    progs = programs(ctx)
    st = E.run_family(ctx, "C08", progs, canary(), missing_impl_re=r"^cannot (add|subtract|multiply|divide|calculate|apply|shift|negate)|^no implementation for|^binary (assignment )?operation|is not satisfied$|^cannot apply unary operator", per=6, extra_support=fam2.c08_support())
    ctx.assumptions += [
        "Kani 0.68 / CBMC 6.11, proof_for_contract on one wrapper per (operator trait, reference form); loop-free, all operand values => complete per program; every one of the 22 operator traits and all 64 forms is covered on each shape",
        "field type L: each operator is a distinct non-commutative function fop(k, lhs, rhs) and carries an application counter (result.n == 1 <=> the field operator ran exactly once); borrowed operands cannot change (shared references, no interior mutability)",
    ]
    cov = dict(st)
    cov.update({"obligations": st["kani_harnesses"], "discharged": st["kani_verified"],
                "checker_cmd": "cargo kani -Z function-contracts -j 16 --output-format terse (crates build/e/C08/*)",
                "trusted_base": ["Kani 0.68.0 / CBMC 6.11", "rustc (real proc-macro expansion)"],
                "functions_under_contract": ["w_<op>_<form> wrappers of every generated operator impl"],
                "exhaustive": not ctx.quick, "samples": [p.meta["describe"][:120] for p in progs[:3]]})
    return ctx.finish(LEVEL, cov)


def replay(path):
    return E.replay_file(path)

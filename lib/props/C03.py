"""C03: default bounds are exactly the used field types that mention a parameter."""
import random, json, re
import boundfam as BF, refmodel as R, glayer
from common import Expander
from props import C04

LEVEL = "proof"
G_UNITS = {
    "bounds": ["WhereClauseBuilder::push_bounds_for_field", "FieldEntry::push_bounds_to", "HelperAttributes::push_bounds_to_raw", "DeriveEntry::push_bounds_to"],
    "builders": ["build_copy_for_struct", "build_copy_for_enum", "build_clone_for_struct", "build_clone_for_enum", "build_debug_expr",
                 "build_debug_for_struct", "build_debug_for_enum", "build_default_ctor_args", "build_default_for_struct", "build_binary_op", "build_assign_op", "build_unary_op"],
    "cmp_bodies": ["build_partial_eq_body", "build_eq_body", "build_partial_ord_body", "build_ord_body", "build_hash_body", "build_compare_op", "build_partial_eq_expr", "build_eq_expr", "build_partial_ord_expr", "build_ord_expr", "build_hash_expr"],
    "cmp_select": ["build_partial_eq_expr", "build_eq_expr", "build_partial_ord_expr", "build_ord_expr", "build_hash_expr"],
}

# ---- type grammar with ground truth: (text, mentions a type/const parameter) ; parameters: T, U, const N, lifetime 'a
ATOMS = [("T", True), ("U", True), ("u8", False), ("String", False), ("r#T", True), ("::T", False), ("m::T", False), ("T::Assoc", True),
         ("<T as Tr>::Assoc", True), ("<u8 as Tr<U>>::Assoc", True), ("<u8 as Tr>::Assoc", False), ("[u8; N]", True), ("[u8; 4]", False),
         ("&'a str", False), ("Tn", False), ("N2", False), ("()", False), ("!", False), ("dyn Tr", False), ("dyn Tr2<T>", True), ("impl_::U", False),
         ("v!(T)", True), ("v!(u8)", False), ("v![(u8, [U; 2])]", True), ("m::v!{ N }", True)]
WRAPS = [lambda s: "Option<%s>" % s, lambda s: "Vec<%s>" % s, lambda s: "Box<%s>" % s, lambda s: "::std::rc::Rc<%s>" % s,
         lambda s: "core::marker::PhantomData<%s>" % s, lambda s: "&'a %s" % s, lambda s: "&'a mut %s" % s, lambda s: "(%s, u8)" % s, lambda s: "(u8, %s,)" % s,
         lambda s: "[%s; 3]" % s, lambda s: "[%s]" % s, lambda s: "fn(%s) -> u8" % s, lambda s: "fn(u8) -> %s" % s, lambda s: "*const %s" % s, lambda s: "*mut %s" % s,
         lambda s: "m::G<%s>" % s, lambda s: "(%s)" % s, lambda s: "Box<dyn Fn(%s) -> u8>" % s, lambda s: "[u8; { let _x: Option<%s> = None; 3 }]" % s]


def type_grammar(depth, rng, count):
    out = list(ATOMS)
    level = list(ATOMS)
    for d in range(depth):
        nxt = []
        for (t, m) in level:
            if t in ("!", "dyn Tr", "dyn Tr2<T>") and d == 0:
                pass
            for w in WRAPS:
                nxt.append((w(t), m))
        rng.shuffle(nxt)
        nxt = nxt[:count]
        out += nxt
        level = nxt
    # pairs
    for i in range(count // 4):
        a, b = rng.choice(out), rng.choice(out)
        out.append(("(%s, %s)" % (a[0], b[0]), a[1] or b[1]))
    return out


def visitor_check(ctx, ex, depth, count):
    """B (bounded): GenericParamSet::contains_in_type, a syn visitor, run natively on a type grammar with ground truth."""
    rng = random.Random(ctx.seed + 3)
    tys = type_grammar(depth, rng, count)
    n = pos = 0
    for (t, m) in tys:
        item = "struct X<'a, T, U, const N: usize> { f: %s }" % t
        r = ex.attr("Clone", item)
        n += 1
        impls = [i for i in (r.get("items") or []) if i["kind"] == "impl"]
        if r["status"] != "ok" or len(impls) != 1:
            # types the parser rejects are not part of the property
            if r["status"] == "ok" and r.get("items") is not None and any(i["kind"] == "compile_error" for i in r["items"]):
                continue
            ctx.violation("B:C03:visitor:%s" % t, "expansion failed for field type %s" % t, {"layer": "B", "item": item, "args": "Clone", "result": r})
            continue
        has = len(impls[0]["where"]) > 0
        pos += 1 if m else 0
        if has != m:
            ctx.violation("B:C03:visitor:%s" % t, "field type `%s` %s a parameter but the default bound is %s" % (t, "mentions" if m else "does not mention", "present" if has else "absent"),
                          {"layer": "B", "item": item, "args": "Clone", "where": impls[0]["where"]})
    return n, pos


def used_fields_check(ctx, ex):
    """B (bounded): which fields contribute the default bound, per trait (the statement's list)."""
    n = 0
    cases = []
    P = lambda t: BF.trait_path(t)
    # (trait list, item, expected set of bounded field types per trait)
    cases.append((["Debug"], "struct X<T, U, V> { #[debug(ignore)] a: Option<T>, b: Option<U>, c: u8, d: Box<V> }", {"Debug": ["Option<U>", "Box<V>"]}))
    cases.append((["Debug"], "struct X<T, U> { a: Option<T>, #[debug(transparent)] b: Option<U> }", {"Debug": ["Option<U>"]}))
    cases.append((["Debug"], "enum X<T, U> { A(#[debug(ignore)] Option<T>), B { #[debug(transparent)] b: Option<U>, c: Vec<T> }, C }", {"Debug": ["Option<U>"]}))
    cases.append((["Default"], "struct X<T, U> { #[default(None)] a: Option<T>, b: Option<U> }", {"Default": ["Option<U>"]}))
    cases.append((["Default"], "enum X<T, U> { A(Option<T>), #[default] B { b: Option<U>, #[default(Vec::new())] c: Vec<T> }, C }", {"Default": ["Option<U>"]}))
    cases.append((["Default"], "#[default(X::new())] struct X<T> { a: Option<T> }", {"Default": []}))
    cases.append((["Default"], "enum X<T> { A(Option<T>) }", {"Default": ["Option<T>"]}))
    cases.append((["Clone", "Copy"], "enum X<T, U> { A(Option<T>), B { b: Box<U>, c: u8 }, C }", {"Clone": ["Option<T>", "Box<U>"], "Copy": ["Option<T>", "Box<U>"]}))
    for t in R.CMP_TRAITS:
        owned = R.AFFECTS[t]
        for a in owned:
            cases.append(([t], "struct X<T: K, U> { #[%s(ignore)] a: Option<T>, b: Option<U> }" % a, {t: ["Option<U>"]}))
            if t == "Hash" and a != "hash":
                cases.append(([t], "struct X<T: K, U> { #[%s(key = k(&$))] a: Option<T>, b: Option<U> }" % a, {t: ["Option<U>"]}))
            else:
                cases.append(([t], "struct X<T: K, U> { #[%s(key = k(&$))] a: Option<T>, b: Option<U> }" % a, {t: ["Option<U>"]}))
                cases.append(([t], "enum X<T: K, U> { A { #[%s(by = f)] a: Option<T>, b: Option<U> }, B(Vec<T>) }" % a, {t: ["Option<U>", "Vec<T>"]}))
    for t in R.CMP_TRAITS:
        a = R.AFFECTS[t][0]
        cases.append(([t], "struct X<T: K, U, V> { b: Option<U>, #[%s(key = k(&$))] a: Option<T>, c: Box<V> }" % a, {t: ["Option<U>", "Box<V>"]}))
        cases.append(([t], "struct X<T: K, U, V>(#[%s(key = k(&$))] Option<T>, Option<U>, #[%s(key = k(&$))] Vec<T>, Box<V>);" % (a, a), {t: ["Option<U>", "Box<V>"]}))
        cases.append(([t], "enum X<T: K, U, V> { A(Option<U>, #[%s(key = k(&$))] Option<T>), B { #[%s(ignore)] a: Vec<T>, b: Box<V>, #[%s(key = k(&$))] c: Vec<T> } }" % (a, a, a), {t: ["Option<U>", "Box<V>"]}))
    cases.append((["Debug"], "struct X<T, U, V>(Option<U>, #[debug(ignore)] Option<T>, Box<V>, #[debug(ignore)] Vec<T>);", {"Debug": ["Option<U>", "Box<V>"]}))
    cases.append((["Default"], "struct X<T, U, V> { b: Option<U>, #[default(None)] a: Option<T>, c: Box<V>, #[default(Vec::new())] d: Vec<T> }", {"Default": ["Option<U>", "Box<V>"]}))
    # a helper attribute only concerns the traits it belongs to: the other traits derived alongside still use (and bound) the field
    both = ["Option<T>", "Option<U>"]
    cases.append((["Debug", "Clone"], "struct X<T, U> { #[debug(ignore)] a: Option<T>, b: Option<U> }", {"Debug": ["Option<U>"], "Clone": both}))
    cases.append((["Clone", "Debug", "Copy"], "enum X<T, U> { A(#[debug(ignore)] Option<T>, Option<U>), B }", {"Debug": ["Option<U>"], "Clone": both, "Copy": both}))
    cases.append((["Debug", "Default"], "struct X<T, U>(#[debug(ignore)] Option<T>, #[debug(transparent)] Option<U>);", {"Debug": ["Option<U>"], "Default": both}))
    cases.append((["Default", "Clone", "Debug"], "struct X<T, U> { #[default(None)] a: Option<T>, b: Option<U> }", {"Default": ["Option<U>"], "Clone": both, "Debug": both}))
    cases.append((["PartialEq", "Clone", "Hash"], "struct X<T: K, U> { #[eq(ignore)] a: Option<T>, b: Option<U> }", {"PartialEq": ["Option<U>"], "Clone": both, "Hash": ["Option<U>"]}))
    cases.append((["Hash", "Debug", "Clone"], "enum X<T: K, U> { A { #[hash(key = k(&$))] a: Option<T>, #[debug(ignore)] b: Option<U> } }", {"Hash": ["Option<U>"], "Debug": ["Option<T>"], "Clone": both}))
    for traits, item, exp in cases:
        r = ex.attr(", ".join(traits), item)
        n += 1
        impls = [i for i in (r.get("items") or []) if i["kind"] == "impl"]
        got = {}
        for i in impls:
            tr = BF.norm(i.get("trait", ""))
            for t in traits:
                if tr == BF.norm(P(t)):
                    got[t] = sorted(BF.norm(w) for w in i["where"])
        for t in traits:
            want = sorted(BF.norm("%s : %s" % (ty, P(t))) for ty in exp[t])
            if got.get(t) != want:
                ctx.violation("B:C03:used:%s:%s" % (t, item), "default bounds for %s are %s, the statement's rule gives %s" % (t, got.get(t), want),
                              {"layer": "B", "item": item, "args": ", ".join(traits), "expected": want, "got": got.get(t)})
    # the same for operators (several impls per trait, each with its own owned / reference form of the bound)
    opcases = [(["Debug", "Neg"], "struct X<T, U> { #[debug(ignore)] a: Option<T>, b: Option<U> }", "Neg", both),
               (["Add", "Debug", "SubAssign"], "struct X<T, U>(#[debug(ignore)] Option<T>, Option<U>);", "Add", both),
               (["Add", "Debug", "SubAssign"], "struct X<T, U>(#[debug(ignore)] Option<T>, Option<U>);", "SubAssign", both),
               (["Default", "Not"], "struct X<T, U> { #[default(None)] a: Option<T>, b: Option<U> }", "Not", both)]
    for traits, item, t, tys in opcases:
        r = ex.attr(", ".join(traits), item)
        n += 1
        got = sorted(sorted(BF.norm(w) for w in i["where"]) for i in (r.get("items") or []) if i["kind"] == "impl" and BF.norm(i.get("trait", "")).startswith(BF.norm(P(t))))
        want = sorted(sorted(BF.norm(form(ty)) for ty in tys) for form in BF.impl_forms(t))
        if got != want:
            ctx.violation("B:C03:used:%s:%s" % (t, item), "default bounds of the %s impls are %s, the statement's rule gives %s" % (t, got, want),
                          {"layer": "B", "item": item, "args": ", ".join(traits), "expected": want, "got": got})
    return n


def typecheck_programs(ctx):
    """'the generated impl itself always type-checks': rustc on shapes where the default bounds interact with the body - a parameter used
    both by value and behind a reference (the where-clause `&'a T: Trait` must not be picked for the body's own `&T`), const parameters,
    projections, unsized tails; every trait, tuple / named / enum placement"""
    import elayer as E
    rp = "\npub fn replay(_h: &str, _b: &[u8]) -> (bool, String) { (true, String::new()) }\n"
    shapes = [("tuple", "pub struct X<'a, T>(pub T, pub &'a T);"), ("tuple_rev", "pub struct X<'a, T>(pub &'a T, pub T);"), ("named", "pub struct X<'a, T> { pub r: &'a T, pub v: T }"),
              ("enum_split", "pub enum X<'a, T> { A(Option<T>), B(&'a Option<T>), C { c: &'a T, d: T } }"), ("wide", "pub struct X<'a, T, U, const N: usize>(pub [T; N], pub U, pub &'a [T; N]);"),
              ("proj", "pub trait Fam { type Item; }\n#[derive_ex::derive_ex(TRAITS)]\npub struct X<'a, T: Fam>(pub T::Item, pub &'a T::Item, pub core::marker::PhantomData<T>);"),
              ("unsized_tail", "pub struct X<'a, T: ?Sized>(pub &'a T, pub Box<T>);"),
              # parameters DECLARED as raw identifiers (type and const): the default bounds must still see them in the field types
              ("raw_params", "pub struct X<r#type, r#T, const r#N: usize> { pub value: Option<r#type>, pub pair: (r#T, T), pub arr: [u8; r#N], pub n: Vec<[r#type; N]> }"),
              ("raw_params_enum", "pub enum X<r#fn, const r#match: usize> { A(Box<r#fn>), B { b: [r#fn; r#match] }, C }")]
    lists = ["Clone", "Debug", "PartialEq, Eq, PartialOrd, Ord, Hash", "Clone, Debug, PartialEq, Eq, PartialOrd, Ord, Hash"]
    progs = []
    for (sn, item) in shapes:
        for li, lst in enumerate(lists):
            if ctx.quick and li in (0, 2) and sn not in ("tuple", "enum_split"):
                continue
            text = item.replace("TRAITS", lst) if "TRAITS" in item else "#[derive_ex::derive_ex(%s)]\n%s" % (lst, item)
            progs.append(E.Prog("p_tc_%s_%d" % (sn, li), text + rp, [], {"describe": "type-checks: derive_ex(%s) %s" % (lst, item.replace("TRAITS", lst).replace("\n", " "))}))
    # recorded finding: a declared bound that pins the operator's Output to a type written differently from the field type
    progs.append(E.Prog("p_kf_output_pinned", "#[derive_ex::derive_ex(Not)]\npub struct X<T: core::ops::Not<Output = bool>>(pub T);" + rp, [], {"describe": "type-checks: derive_ex(Not) pub struct X<T: Not<Output = bool>>(pub T);"}))
    return E.run_family(ctx, "C03", progs, None)


def run(ctx):
    ex = Expander()
    n1, pos = visitor_check(ctx, ex, 2 if ctx.quick else 3, 150 if ctx.quick else 1500)
    n2 = used_fields_check(ctx, ex)
    ex.close()
    est = typecheck_programs(ctx)
    n2 += est["programs"]
    g = glayer.run_g(ctx, G_UNITS)
    ctx.assumptions += [
        "layer G: which fields push their type is proved for Copy/Clone/Debug builders and Default's field walk (all field/variant counts); for the comparison traits the per-field `field_used == (no key/by selected)` postcondition of build_*_expr is proved, the body builders' use of it is executed only (layer B)",
        "layer G: push_bounds_for_field pushes the type iff mentions(gps, ty); `mentions` is GenericParamSet::contains_in_type, an external syn visitor checked by layer B on a type grammar (bounded, depth <= 3)",
        "the 'impl type-checks / never demands T: Trait' half is discharged by rustc on the generic impls compiled in the layer-E crates of C01/C06/C07/C12/C20 (generic programs)",
    ]
    cov = {
        "obligations": g["obligations"], "discharged": g["discharged"],
        "checker_cmd": "verus build/g/{bounds,builders,cmp_select}.rs --output-json --time",
        "trusted_base": ["Verus 0.2026.09.13 / Z3", "contracts/_prelude.rs + _types.rs stand-ins"],
        "functions_under_contract": g["functions_under_contract"], "g_units": g["units"], "assumption_scan": g["assumption_scan"], "solver_ms": g["smt_ms"],
        "bounded": {"visitor_types": n1, "visitor_types_mentioning_a_parameter": pos, "used_field_cases": n2},
        "evaluations": n1 + n2, "distinct_nontrivial": pos,
        "rule": "type grammar over T, U, const N, 'a with ground truth (depth-bounded, seeded); used-field cases per trait from the statement's list",
        "samples": ["struct X<'a, T, U, const N: usize> { f: [u8; N] }", "struct X<T: K, U> { #[eq(key = k(&$))] a: Option<T>, b: Option<U> }"],
    }
    return ctx.finish(LEVEL, cov)


def replay(path):
    return C04.replay(path)

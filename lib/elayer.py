"""Layer E: harness crates that use the REAL proc-macro (path dependency on /repo/derive-ex); contracts on thin wrappers of the
generated methods, proved by Kani (`proof_for_contract`, loop-free, full-domain symbolic inputs => complete per program)."""
import os, re, json, shutil, time
from common import BUILD, REPO, VERIF, Undecided, sh, env_with, NCPU

SUPPORT_RS = r'''
#![allow(unused)]
use core::cmp::Ordering;
use core::hash::{Hash, Hasher};

/// decoy trait, implemented for everything and brought into scope (unnamed) next to every derive_ex item of the comparison family:
/// BY-VALUE methods named like the trait methods generated code might be tempted to call with method syntax. Method probing finds a
/// by-value method before the std `&self` one, so `a.cmp(&b)` in generated code would silently land here; fully qualified calls do not.
pub mod hijack {
use core::cmp::Ordering;
pub trait HijackAll: Sized {
    fn cmp(self, _o: &Self) -> Ordering { Ordering::Equal }
    fn partial_cmp(self, _o: &Self) -> Option<Ordering> { None }
    fn eq(self, _o: &Self) -> bool { false }
    fn ne(self, _o: &Self) -> bool { false }
    fn hash<H>(self, _h: &mut H) {}
    fn clone(self) -> Self { self }
    fn then(self, _o: Ordering) -> Ordering { Ordering::Equal }
    fn then_with<F>(self, _f: F) -> Ordering { Ordering::Equal }
    fn reverse(self) -> Self { self }
    fn is_eq(self) -> bool { false }
    fn is_ne(self) -> bool { false }
    fn map<F>(self, _f: F) -> Self { self }
    fn fmt(self, _f: &mut core::fmt::Formatter<'_>) -> core::fmt::Result { Ok(()) }
    fn write_u8(self, _v: u8) {}
    fn write_usize(self, _v: usize) {}
    fn write_isize(self, _v: isize) {}
    fn write_u64(self, _v: u64) {}
    fn clone_from(self, _o: &Self) {}
    fn into(self) -> Self { self }
    fn deref(self) -> Self { self }
    fn deref_mut(self) -> Self { self }
    fn neg(self) -> Self { self }
    fn not(self) -> Self { self }
    fn add<R>(self, _r: R) -> Self { self } fn sub<R>(self, _r: R) -> Self { self } fn mul<R>(self, _r: R) -> Self { self } fn div<R>(self, _r: R) -> Self { self } fn rem<R>(self, _r: R) -> Self { self }
    fn bitand<R>(self, _r: R) -> Self { self } fn bitor<R>(self, _r: R) -> Self { self } fn bitxor<R>(self, _r: R) -> Self { self } fn shl<R>(self, _r: R) -> Self { self } fn shr<R>(self, _r: R) -> Self { self }
    fn add_assign<R>(self, _r: R) {} fn sub_assign<R>(self, _r: R) {} fn mul_assign<R>(self, _r: R) {} fn div_assign<R>(self, _r: R) {} fn rem_assign<R>(self, _r: R) {}
    fn bitand_assign<R>(self, _r: R) {} fn bitor_assign<R>(self, _r: R) {} fn bitxor_assign<R>(self, _r: R) {} fn shl_assign<R>(self, _r: R) {} fn shr_assign<R>(self, _r: R) {}
}
impl<T> HijackAll for T {}
}

/// Source of input bytes: symbolic under Kani, a recorded vector in native replay.
pub trait Src { fn u8(&mut self) -> u8; }
#[cfg(kani)]
pub struct KaniSrc;
#[cfg(kani)]
impl Src for KaniSrc { fn u8(&mut self) -> u8 { kani::any() } }
pub struct VecSrc { pub v: Vec<u8>, pub i: usize }
impl Src for VecSrc { fn u8(&mut self) -> u8 { let b = if self.i < self.v.len() { self.v[self.i] } else { 0 }; self.i += 1; b } }

pub trait Mk: Sized { fn mk<S: Src>(s: &mut S) -> Self; }
impl Mk for u8 { fn mk<S: Src>(s: &mut S) -> Self { s.u8() } }
impl Mk for i16 { fn mk<S: Src>(s: &mut S) -> Self { let a = s.u8(); let b = s.u8(); i16::from_le_bytes([a, b]) } }
impl Mk for bool { fn mk<S: Src>(s: &mut S) -> Self { s.u8() & 1 == 1 } }
impl<T: Mk> Mk for Option<T> { fn mk<S: Src>(s: &mut S) -> Self { if s.u8() & 1 == 1 { Some(T::mk(s)) } else { None } } }
impl Mk for P { fn mk<S: Src>(s: &mut S) -> Self { P(s.u8()) } }
impl<T: Mk> Mk for W<T> { fn mk<S: Src>(s: &mut S) -> Self { W(T::mk(s)) } }
impl<T> Mk for core::marker::PhantomData<T> { fn mk<S: Src>(_s: &mut S) -> Self { core::marker::PhantomData } }

/// partially ordered probe (NaN-like at 255): PartialEq + PartialOrd only
#[derive(Clone, Copy, Debug)]
pub struct P(pub u8);
impl PartialEq for P { fn eq(&self, o: &Self) -> bool { self.0 != 255 && o.0 != 255 && self.0 == o.0 } }
impl PartialOrd for P { fn partial_cmp(&self, o: &Self) -> Option<Ordering> { if self.0 == 255 || o.0 == 255 { None } else { Some(self.0.cmp(&o.0)) } } }
/// generic wrapper with the std derives
#[derive(Clone, Copy, Debug, PartialEq, Eq, PartialOrd, Ord, Hash, Default)]
pub struct W<T>(pub T);
/// decoys: inherent methods named like the trait methods the generated code calls; fully qualified calls never reach them
impl<T> W<T> {
    pub fn eq<R>(&self, _o: R) -> bool { true }
    pub fn ne<R>(&self, _o: R) -> bool { true }
    pub fn partial_cmp<R>(&self, _o: R) -> Option<Ordering> { None }
    pub fn cmp<R>(&self, _o: R) -> Ordering { Ordering::Less }
    pub fn hash<R>(&self, _h: R) {}
    pub fn fmt<R>(&self, _f: R) -> core::fmt::Result { Ok(()) }
    pub fn clone_from<R>(&mut self, _s: R) {}
}
impl P {
    pub fn eq<R>(&self, _o: R) -> bool { true }
    pub fn partial_cmp<R>(&self, _o: R) -> Option<Ordering> { Some(Ordering::Less) }
}

pub fn rv(o: Option<Ordering>) -> Option<Ordering> { match o { Some(x) => Some(x.reverse()), None => None } }
/// a byte view of a field value, so that key / by functions exist for every pool type
pub trait Kb { fn kb(&self) -> u8; }
impl Kb for u8 { fn kb(&self) -> u8 { *self } }
impl Kb for i16 { fn kb(&self) -> u8 { let b = self.to_le_bytes(); b[0] ^ b[1] } }
impl Kb for bool { fn kb(&self) -> u8 { if *self { 0xff } else { 0 } } }
impl<T: Kb> Kb for Option<T> { fn kb(&self) -> u8 { match self { Some(x) => x.kb(), None => 0xa5 } } }
impl Kb for P { fn kb(&self) -> u8 { self.0 } }
impl<T: Kb> Kb for W<T> { fn kb(&self) -> u8 { self.0.kb() } }

/// the identity key (`key = $`)
pub fn k_id<T>(x: &T) -> &T { x }
// distinct key functions per attribute, so that which attribute won is observable
pub fn k_ord<T: Kb>(x: &T) -> u8 { x.kb() & 0x0f }
pub fn k_partial_ord<T: Kb>(x: &T) -> u8 { x.kb() & 0x33 }
pub fn k_eq<T: Kb>(x: &T) -> u8 { x.kb() & 0x55 }
pub fn k_partial_eq<T: Kb>(x: &T) -> u8 { x.kb() & 0x3c }
pub fn k_hash<T: Kb>(x: &T) -> u8 { x.kb() & 0xf0 }
// distinct `by` functions per attribute (signatures of the respective trait methods)
pub fn by_ord<T: Kb>(a: &T, b: &T) -> Ordering { (a.kb() & 0xc3).cmp(&(b.kb() & 0xc3)) }
pub fn by_partial_ord<T: Kb>(a: &T, b: &T) -> Option<Ordering> {
    let (x, y) = (a.kb() & 0x1e, b.kb() & 0x1e);
    if x == 0x1e || y == 0x1e { None } else { Some(x.cmp(&y)) }
}
pub fn by_eq<T: Kb>(a: &T, b: &T) -> bool { (a.kb() & 0x66) == (b.kb() & 0x66) }
pub fn by_partial_eq<T: Kb>(a: &T, b: &T) -> bool { (a.kb() & 0x99) == (b.kb() & 0x99) }
pub fn by_hash<T: Kb, H: Hasher>(a: &T, h: &mut H) { h.write_u8(a.kb() & 0x5a); h.write_u8(0xee); }
// one consistent key (C02): every attribute expresses the same key
pub fn ck<T: Kb>(x: &T) -> u8 { x.kb() & 0x3c }
pub fn ck_cmp<T: Kb>(a: &T, b: &T) -> Ordering { ck(a).cmp(&ck(b)) }
pub fn ck_pcmp<T: Kb>(a: &T, b: &T) -> Option<Ordering> { Some(ck(a).cmp(&ck(b))) }
/// a genuinely partial order that is still coherent with ck / ck_eq (0x0c is incomparable with everything but itself); only used when Ord is not derived
pub fn ck_pcmp_nr<T: Kb>(a: &T, b: &T) -> Option<Ordering> { let (x, y) = (ck(a), ck(b)); if x == 0x0c || y == 0x0c { None } else { Some(x.cmp(&y)) } }
pub fn ck_pcmp_p<T: Kb>(a: &T, b: &T) -> Option<Ordering> { let (x, y) = (ck(a), ck(b)); if x == y { Some(Ordering::Equal) } else if x == 0x0c || y == 0x0c { None } else { Some(x.cmp(&y)) } }
pub fn ck_eq<T: Kb>(a: &T, b: &T) -> bool { ck(a) == ck(b) }
pub fn ck_hash<T: Kb, H: Hasher>(a: &T, h: &mut H) { ck(a).hash(h) }

/// recording Hasher: every write_* lands in `write`; the byte sequence and its length are the feed
#[derive(Clone, Copy, PartialEq, Eq, Debug)]
pub struct Rec { pub buf: [u8; 32], pub len: usize }
impl Rec { pub fn new() -> Self { Rec { buf: [0; 32], len: 0 } } }
impl Rec {
    fn put(&mut self, b: u8) { if self.len < 32 { self.buf[self.len] = b; } self.len += 1; }
    fn tagged(&mut self, tag: u8, bytes: &[u8]) { self.put(tag); let mut i = 0; while i < bytes.len() { self.put(bytes[i]); i += 1; } }
}
// every write_* call is recorded with a tag byte of its own, so the *sequence of write_* calls* is the feed
impl Hasher for Rec {
    fn finish(&self) -> u64 { 0 }
    fn write(&mut self, bytes: &[u8]) { self.tagged(0xb0, bytes) }
    fn write_u8(&mut self, i: u8) { self.tagged(0xb1, &[i]) }
    fn write_u16(&mut self, i: u16) { self.tagged(0xb2, &i.to_le_bytes()) }
    fn write_u32(&mut self, i: u32) { self.tagged(0xb3, &i.to_le_bytes()) }
    fn write_u64(&mut self, i: u64) { self.tagged(0xb4, &i.to_le_bytes()) }
    fn write_usize(&mut self, i: usize) { self.tagged(0xb5, &(i as u64).to_le_bytes()) }
    fn write_i8(&mut self, i: i8) { self.tagged(0xb6, &i.to_le_bytes()) }
    fn write_i16(&mut self, i: i16) { self.tagged(0xb7, &i.to_le_bytes()) }
    fn write_i32(&mut self, i: i32) { self.tagged(0xb8, &i.to_le_bytes()) }
    fn write_i64(&mut self, i: i64) { self.tagged(0xb9, &i.to_le_bytes()) }
    fn write_isize(&mut self, i: isize) { self.tagged(0xba, &(i as i64).to_le_bytes()) }
}
'''


REPLAY_MAIN = r'''
// replay <prog> <harness> <bytes..>: run the recorded input natively against the real expansion; if it does not
// reproduce, search natively (edge-biased random byte vectors) for an input on which derived and documented results differ.
const EDGE: [u8; 16] = [0, 1, 2, 3, 15, 16, 17, 32, 60, 64, 127, 128, 129, 240, 254, 255];
fn main() {
    let a: Vec<String> = std::env::args().collect();
    let b: Vec<u8> = a[3..].iter().map(|x| x.parse().unwrap()).collect();
    let (ok, d) = ecrate::replay(&a[1], &a[2], &b);
    if !ok { println!("REPRODUCED input={:?} {}", b, d); return; }
    let mut st: u64 = 0x9e3779b97f4a7c15;
    let mut next = || { st ^= st << 13; st ^= st >> 7; st ^= st << 17; st };
    for _ in 0..400000u32 {
        let mut v = Vec::with_capacity(40);
        for _ in 0..40 { let r = next(); v.push(if r & 3 == 0 { (r >> 8) as u8 } else { EDGE[((r >> 8) & 15) as usize] }); }
        let (ok, d) = ecrate::replay(&a[1], &a[2], &v);
        if !ok { println!("FOUND input={:?} {}", v, d); return; }
    }
    println!("NOT-REPRODUCED recorded input gives: {}", d);
}
'''


class Prog:
    def __init__(self, name, text, harnesses, meta=None, expect_compile=True, ncheck=False):
        self.ncheck = ncheck
        self.name, self.text, self.harnesses, self.meta = name, text, harnesses, meta or {}
        self.expect_compile = expect_compile
        # the derive_ex item comes first in the module text: its line range (after the 4 header lines written by ECrate)
        n = (meta or {}).get("def_lines") or text.split("\n\n")[0].count("\n") + 1
        self.def_lines = (5, 5 + n)


class ECrate:
    def __init__(self, pid, name, extra_support="", strict=False, strict_allow="non_camel_case_types, non_snake_case, non_upper_case_globals"):
        self.pid, self.name = pid, name
        self.strict_allow = strict_allow
        self.strict = strict        # strict: program modules carry #![deny(warnings)] and no blanket allow / use lines
        self.dir = os.path.join(BUILD, "e", pid, name)
        self.progs = []
        self.extra_support = extra_support
        self.excluded = {}
        self.kani_wall = 0.0
        self.check_wall = 0.0
        self.harness_timeout = 240
        self.missing_impl_re = None     # families whose harness calls every derived form set this (see run_family)

    def add(self, prog):
        self.progs.append(prog)

    def write(self):
        if os.path.exists(self.dir):
            shutil.rmtree(self.dir)
        os.makedirs(os.path.join(self.dir, "src", "bin"))
        open(os.path.join(self.dir, "Cargo.toml"), "w").write('''[package]
name = "ecrate"
version = "0.0.0"
edition = "2021"

[dependencies]
derive-ex = { path = "%s/derive-ex" }

[lints.rust]
unexpected_cfgs = { level = "allow", check-cfg = ['cfg(kani)'] }

[workspace]
''' % REPO)
        lock = os.path.join(REPO, "Cargo.lock")
        if os.path.exists(lock):
            shutil.copy(lock, os.path.join(self.dir, "Cargo.lock"))
        open(os.path.join(self.dir, "src", "support.rs"), "w").write(SUPPORT_RS + self.extra_support)
        self._write_lib()
        for p in self.progs:
            hdr = ("#![deny(warnings)]\n%s\n//\n//\n" % (("#![allow(%s)]" % self.strict_allow) if self.strict_allow else "//") if self.strict else
                   "#![allow(unused, non_camel_case_types, non_snake_case, clippy::all)]\nuse crate::support::*;\nuse core::cmp::Ordering;\nuse core::hash::{Hash, Hasher};\n")
            open(os.path.join(self.dir, "src", p.name + ".rs"), "w").write(hdr + p.text)

    def _write_lib(self):
        mods = "\n".join("pub mod %s;" % p.name for p in self.progs if p.name not in self.excluded)
        disp = "\n".join('        "%s" => %s::replay(h, b),' % (p.name, p.name) for p in self.progs if p.name not in self.excluded)
        open(os.path.join(self.dir, "src", "lib.rs"), "w").write(
            # strict crates: no crate-wide `allow(unused)` (it would silence unused_parens / unused_braces / unused_variables .. in the program
            # modules as well - their `#![deny(warnings)]` only raises lints that are at warn level); the allow sits on the support module only
            "%spub mod support;\n%s\npub fn replay(p: &str, h: &str, b: &[u8]) -> (bool, String) {\n    match p {\n%s\n        _ => (true, String::from(\"unknown program\")),\n    }\n}\n" % ("#[allow(unused)]\n" if self.strict else "#![allow(unused)]\n", mods, disp))
        open(os.path.join(self.dir, "src", "bin", "replay.rs"), "w").write(REPLAY_MAIN)
        nc = "\n".join('    for m in ecrate::%s::ncheck() { println!("%s\\t{}", m.replace("\\n", " ")); }' % (p.name, p.name) for p in self.progs if p.ncheck and p.name not in self.excluded)
        open(os.path.join(self.dir, "src", "bin", "ncheck.rs"), "w").write("fn main() {\n%s\n    println!(\"NCHECK-DONE\");\n}\n" % nc)

    def triage(self):
        """cargo check with the plain toolchain; programs that rustc rejects are excluded and returned with their diagnostics."""
        t0 = time.time()
        rejected = {}
        byname = {p.name: p for p in self.progs}
        for _ in range(4):
            p = sh(["cargo", "check", "--offline", "--lib", "--message-format=json", "-q"], cwd=self.dir,
                   env=env_with(CARGO_TARGET_DIR=os.path.join(BUILD, "e", "target-check")))
            errs = {}
            other = []
            for l in p.stdout.split("\n"):
                if not l.startswith("{"):
                    continue
                try:
                    d = json.loads(l)
                except Exception:
                    continue
                if d.get("reason") != "compiler-message":
                    continue
                m = d["message"]
                if m.get("level") != "error":
                    continue
                prog, in_def = None, False
                spans = sorted(m.get("spans", []), key=lambda s: not s.get("is_primary"))
                for sp in spans:
                    mm = re.match(r"src/(p_\w+)\.rs$", sp["file_name"])
                    if mm:
                        prog = prog or mm.group(1)
                        pr = byname.get(mm.group(1))
                        if pr is not None and pr.def_lines[0] <= sp["line_start"] <= pr.def_lines[1]:
                            in_def = True
                if not in_def and self.missing_impl_re is not None and re.search(self.missing_impl_re, m["message"]):
                    # the harness calls a derived impl that does not exist: the fault is in what the macro generated, not in the harness
                    in_def = True
                rec = {"message": m["message"], "code": (m.get("code") or {}).get("code"), "rendered": (m.get("rendered") or "")[:1500], "in_definition": in_def}
                if prog:
                    errs.setdefault(prog, []).append(rec)
                elif "aborting due to" not in m["message"] and "could not compile" not in m["message"]:
                    other.append(rec)
            if p.returncode == 0:
                break
            if not errs:
                raise Undecided("harness crate %s does not compile and no program is to blame: %s %s" % (self.name, other[:2], p.stderr[-1500:]))
            for k, v in errs.items():
                if not any(d["in_definition"] for d in v) and byname[k].expect_compile:
                    raise Undecided("harness code of %s/%s does not compile (not located in the derive_ex item): %s" % (self.name, k, v[0]["rendered"]))
                rejected[k] = v
                self.excluded[k] = v
            self._write_lib()
        else:
            raise Undecided("harness crate %s: triage did not converge" % self.name)
        self.check_wall += time.time() - t0
        return rejected

    def _kani(self, extra, timeout):
        cmd = ["cargo", "kani", "-Z", "function-contracts", "--output-format", "terse"] + extra
        return sh(cmd, cwd=self.dir, env=env_with(CARGO_TARGET_DIR=os.path.join(BUILD, "e", "target-kani")), timeout=timeout)

    def run_kani(self, timeout=3000, jobs=NCPU):
        """returns {harness_fullname: {"ok": bool, "failed_checks": str}}"""
        t0 = time.time()
        p = self._kani(["-j", str(jobs), "-Z", "unstable-options", "--harness-timeout", str(self.harness_timeout)], timeout)
        self.kani_wall += time.time() - t0
        out = p.stdout + "\n" + p.stderr
        open(os.path.join(self.dir, "kani.log"), "w").write(out)
        m = re.search(r"Complete - (\d+) successfully verified harnesses, (\d+) failures, (\d+) total", out)
        if not m:
            raise Undecided("kani did not complete on %s: %s" % (self.name, out[-3000:]))
        ok_n, fail_n, total = int(m.group(1)), int(m.group(2)), int(m.group(3))
        failed = set(re.findall(r"Verification failed for - (\S+)", out))
        res = {}
        # per-thread blocks: "Thread N: Checking harness X..." then "Thread N: " followed by that harness's result block
        cur, blocks, owner = {}, {}, None
        for l in out.split("\n"):
            mm = re.match(r"(?:Thread (\d+): )?Checking harness (\S+?)\.\.\.", l)
            if mm:
                cur[mm.group(1)] = mm.group(2)
                blocks.setdefault(mm.group(2), [])
                owner = mm.group(2) if mm.group(1) is None else None
                continue
            mm = re.match(r"Thread (\d+): ?(.*)", l)
            if mm:
                owner = cur.get(mm.group(1))
                continue
            if owner:
                blocks[owner].append(l)
        expected = [p_.name + "::proofs::" + h for p_ in self.progs if p_.name not in self.excluded for h in p_.harnesses]
        seen = set(blocks.keys())
        for h in expected:
            if h not in seen:
                raise Undecided("harness %s was not run by kani (vacuity guard)" % h)
        if total != len(expected):
            raise Undecided("kani ran %d harnesses, expected %d" % (total, len(expected)))
        for h in expected:
            txt = "\n".join(blocks.get(h, []))
            fc = re.findall(r"Failed Checks: (.*)", txt)
            res[h] = {"ok": h not in failed, "failed_checks": fc, "unwind": "unwinding assertion" in txt,
                      "timeout": ("imed out" in txt or "TIMEOUT" in txt or "out of memory" in txt.lower() or (h in failed and "VERIFICATION:- FAILED" not in txt))}
        if len(failed) != fail_n:
            raise Undecided("kani summary inconsistent")
        return res

    def playback(self, harness, timeout=900):
        """concrete values (one byte per Src::u8 draw) of a failing harness, or None"""
        p = self._kani(["-Z", "concrete-playback", "--concrete-playback=print", "--harness", harness], timeout)
        out = p.stdout
        m = re.search(r"let concrete_vals: Vec<Vec<u8>> = vec!\[(.*?)\];", out, re.S)
        if not m:
            return None
        vals = []
        for v in re.findall(r"vec!\[([0-9, ]*)\]", m.group(1)):
            bs = [int(x) for x in v.split(",") if x.strip()]
            vals.append(bs)
        return vals

    def run_native(self, timeout=1200):
        """run every program's ncheck() natively (plain cargo, real proc-macro); returns {prog: [messages]}"""
        p = sh(["cargo", "run", "--offline", "-q", "--bin", "ncheck"], cwd=self.dir,
               env=env_with(CARGO_TARGET_DIR=os.path.join(BUILD, "e", "target-check")), timeout=timeout)
        if "NCHECK-DONE" not in p.stdout:
            raise Undecided("native check binary of %s failed: %s" % (self.name, (p.stdout + p.stderr)[-2000:]))
        out = {}
        for l in p.stdout.split("\n"):
            if "\t" in l:
                a, b = l.split("\t", 1)
                out.setdefault(a, []).append(b)
        return out

    def native(self, prog, harness, byts, timeout=600):
        p = sh(["cargo", "run", "--offline", "-q", "--bin", "replay", "--", prog, harness] + [str(b) for b in byts], cwd=self.dir,
               env=env_with(CARGO_TARGET_DIR=os.path.join(BUILD, "e", "target-check")), timeout=timeout)
        return (p.stdout + p.stderr).strip()


EDGE = [0, 1, 2, 3, 15, 16, 17, 60, 127, 128, 129, 254, 255]


def decide(ctx, crate, results, keyfn, describe):
    """Turn failed Kani obligations into violations, each with the verifier's counterexample replayed natively on the real code."""
    byname = {p.name: p for p in crate.progs}
    n_fail = 0
    for h, r in sorted(results.items()):
        if r["ok"]:
            continue
        if r.get("timeout"):
            # no verdict from the verifier: a failing input found natively on the real expansion (or a run that overflows its stack: unbounded
            # recursion is what makes CBMC run out of its limits) is still a refutation; otherwise the obligation stays undecided
            pname, hname = h.split("::proofs::")
            prog = byname[pname]
            try:
                out = crate.native(pname, hname, [], timeout=300)
            except Exception as e:
                out = "native run did not finish: %s" % str(e)[:200]
            m = re.search(r"(REPRODUCED|FOUND) input=\[([0-9, ]*)\] (.*)", out, re.S)
            crashed = "overflowed its stack" in out or "stack overflow" in out
            if m or crashed:
                rep = {"layer": "E", "obligation": "%s::%s" % (pname, hname), "failed_checks": ["CBMC reached its limits (no verdict); refuted natively"], "program": prog.text,
                       "harness": hname, "meta": prog.meta, "describe": describe(prog), "extra_support": crate.extra_support, "native_replay": out[-800:]}
                if m:
                    rep["input_bytes"] = [int(x) for x in m.group(2).split(",") if x.strip()]
                ctx.violation(keyfn(prog, hname), "no verdict from CBMC (limits reached); on the real code: %s" % (m.group(3).strip()[:300] if m else "the native run of the harness overflows its stack (unbounded recursion): " + out[-200:].replace("\n", " ")), rep, no_input=not m)
                n_fail += 1
                continue
            ctx.undecided.append("harness %s: CBMC timeout/limit (no verdict)" % h)
            continue
        n_fail += 1
        pname, hname = h.split("::proofs::")
        prog = byname[pname]
        key = keyfn(prog, hname)
        if ctx.finding_for(key) is not None or n_fail > 12:
            ctx.violation(key, "Kani obligation failed: %s" % r["failed_checks"], {"layer": "E", "program": prog.text, "harness": hname, "meta": prog.meta}, no_input=True)
            continue
        rep = {"layer": "E", "obligation": "%s::%s" % (pname, hname), "failed_checks": r["failed_checks"], "program": prog.text,
               "harness": hname, "meta": prog.meta, "describe": describe(prog), "extra_support": crate.extra_support}
        # 1. native search on the real expansion (fast); 2. otherwise Kani's concrete playback values, replayed natively
        out = crate.native(pname, hname, [])
        m = re.search(r"(REPRODUCED|FOUND) input=\[([0-9, ]*)\] (.*)", out, re.S)
        if not m:
            vals = None
            try:
                vals = crate.playback(h)
            except Exception:
                vals = None
            if vals:
                byts = [v[0] if v else 0 for v in vals]
                out = crate.native(pname, hname, byts)
                rep["kani_concrete_values"] = byts
                m = re.search(r"(REPRODUCED|FOUND) input=\[([0-9, ]*)\] (.*)", out, re.S)
        if m:
            byts = [int(x) for x in m.group(2).split(",") if x.strip()]
            rep.update({"input_bytes": byts, "native_replay": m.group(3).strip()})
            ctx.violation(key, "Kani obligation failed: %s; failing input replayed on the real code: %s" % (r["failed_checks"], m.group(3).strip()[:300]), rep)
        else:
            rep["native_replay"] = out[-600:]
            ctx.violation(key, "Kani obligation failed: %s" % r["failed_checks"], rep, no_input=True)
    return n_fail


def replay_file(path):
    """./check <id> --replay <file>: rebuild the single program against /repo with plain cargo and run the recorded input."""
    rep = json.load(open(path))
    print("obligation:", rep.get("obligation") or rep.get("key"))
    print("what:", rep.get("what"))
    if rep.get("layer") != "E" or "program" not in rep:
        print(json.dumps(rep, indent=1)[:4000])
        return 1
    c = ECrate(rep["property"], "replay", rep.get("extra_support", ""))
    c.add(Prog("p_replay", rep["program"], [rep["harness"]], rep.get("meta")))
    c.write()
    rej = c.triage()
    if rej:
        print("program does not compile against the current tree:")
        for d in rej.get("p_replay", []):
            print(d["rendered"])
        return 1
    print("native replay on the current tree:", c.native("p_replay", rep["harness"], rep.get("input_bytes") or []))
    return 1


def run_family(ctx, pid, progs, canary=None, per=60, compile_violation=True, extra_support="", jobs=NCPU, timeout=3000, missing_impl_re=None):
    """Batch programs into crates, triage with rustc, prove every harness with Kani, turn failures into violations.
    A canary program (deliberately false contract) must be refuted in the first crate."""
    stats = {"programs": len(progs), "kani_harnesses": 0, "kani_verified": 0, "kani_wall_s": 0.0, "rustc_wall_s": 0.0,
             "programs_rejected_by_rustc": 0, "canary_refuted": None, "crates": 0}
    byname = {p.name: p for p in progs}
    # which back-end mode discharges the obligations (see DESIGN 2.3): proof_for_contract vs. the same postcondition asserted in a loop-free harness
    stats["harnesses_proof_for_contract"] = sum(p.text.count("#[kani::proof_for_contract(") for p in progs)
    stats["harnesses_assert_mode"] = sum(p.text.count("#[kani::proof]") for p in progs)
    for ci in range(0, len(progs), per):
        c = ECrate(pid, "c%02d" % (ci // per), extra_support)
        c.missing_impl_re = missing_impl_re
        for p in progs[ci:ci + per]:
            c.add(p)
        if ci == 0 and canary is not None:
            c.add(canary)
        c.write()
        rej = c.triage()
        stats.setdefault("native_checks", 0)
        if any(p.ncheck and p.name not in c.excluded for p in c.progs):
            nat = c.run_native()
            for p in c.progs:
                if p.ncheck and p.name not in c.excluded:
                    stats["native_checks"] += 1
                    for msg in nat.get(p.name, [])[:3]:
                        ctx.violation("E:%s:native:%s:%s" % (pid, p.meta.get("describe", p.name), msg[:60]), "native run on the real expansion: " + msg,
                                      {"layer": "E", "program": p.text, "harness": "ncheck", "meta": p.meta, "extra_support": extra_support, "native": msg})
        if any(p.harnesses for p in c.progs if p.name not in c.excluded):
            res = c.run_kani(timeout=timeout, jobs=jobs)
        else:
            res = {}
        if ci == 0 and canary is not None:
            can = [h for h in res if h.startswith(canary.name + "::")]
            if canary.name in c.excluded:
                # the canary itself does not compile against this tree: vacuity guard unavailable, other results still stand
                ctx.undecided.append("canary program rejected by rustc on this tree (vacuity guard not exercised)")
            elif not can or all(res[h]["ok"] for h in can):
                raise Undecided("canary contract was not refuted: the Kani pipeline is blind")
            for h in can:
                del res[h]
            c.progs = [p for p in c.progs if p.name != canary.name]
            stats["canary_refuted"] = True
        stats["kani_harnesses"] += len(res)
        stats["kani_verified"] += sum(1 for r in res.values() if r["ok"])
        decide(ctx, c, res, lambda prog, h: "E:%s:%s:%s" % (pid, prog.meta.get("describe", prog.name), h), lambda prog: prog.meta.get("describe", ""))
        stats["kani_wall_s"] += c.kani_wall
        stats["rustc_wall_s"] += c.check_wall
        stats["crates"] += 1
        for pn, diags in rej.items():
            prog = byname.get(pn)
            if prog is None:
                continue
            stats["programs_rejected_by_rustc"] += 1
            if compile_violation and prog.expect_compile:
                ctx.violation("E:%s:compile:%s" % (pid, prog.meta.get("describe", pn)), "accepted program does not compile: %s" % diags[0]["message"],
                              {"layer": "E", "program": prog.text, "harness": "", "meta": prog.meta, "rustc": diags[:3]})
        for prog in progs[ci:ci + per]:
            if not prog.expect_compile and prog.name not in rej:
                ctx.violation("E:%s:must-refuse:%s" % (pid, prog.meta.get("describe", prog.name)), "a program that must be refused compiles",
                              {"layer": "E", "program": prog.text, "harness": "", "meta": prog.meta})
    stats["kani_wall_s"] = round(stats["kani_wall_s"], 1)
    stats["rustc_wall_s"] = round(stats["rustc_wall_s"], 1)
    return stats

"""MANIFEST.setup_cmd: build the framework offline from files on disk (expander, dependency builds for the harness crates)."""
import os, sys
import common, elayer


def main():
    common.build_expander()
    print("expander built:", common.EXPANDER_BIN)
    # warm the two cargo target dirs used by layer E (syn/quote/structmeta + the real proc-macro), one trivial program
    c = elayer.ECrate("setup", "warm")
    c.add(elayer.Prog("p_warm", "#[derive_ex::derive_ex(Clone)]\npub struct X(pub u8);\n\n#[cfg(kani)]\npub mod proofs { use super::*; #[kani::proof] pub fn h() { let x = X(kani::any()); assert!(x.clone().0 == x.0); } }\npub fn replay(h: &str, b: &[u8]) -> (bool, String) { (true, String::new()) }\n", ["h"]))
    c.write()
    c.triage()
    r = c.run_kani()
    print("kani warm-up:", r)
    p = common.sh(["verus", "--version"])
    print(p.stdout.strip())
    return 0

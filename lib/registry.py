HOOK_COMMITS = ["5e08def"]
NOTES = "Contract-based deductive verification: layer G = Verus on functions extracted textually from /repo every run; layer E = Kani contracts on the real macro's expansions; layer B = bounded runs through the in-process expander (labelled bounded). See DESIGN.md."
ENGINES = [
    {"name": "G-verus", "path": "lib/gx.py, lib/glayer.py, contracts/", "serves_properties": ["C01", "C02", "C05", "C06"], "kind_free_text": "Verus 0.2026.09.13 on generator functions copied from /repo/derive-ex/src every run (rewrites R1-R6), contracts from the property statements"},
    {"name": "E-kani", "path": "lib/elayer.py, lib/cmpfam.py", "serves_properties": ["C01", "C02", "C06"], "kind_free_text": "Kani 0.68 function contracts (proof_for_contract) / loop-free assert harnesses on the impls the real proc-macro emits for generated programs; native replay of counterexamples"},
    {"name": "B-expander", "path": "expander/, lib/blayer.py", "serves_properties": ["C02", "C05"], "kind_free_text": "bounded stand-in: real generator code linked as a library under cfg(frozenlib_derive_ex_verif), executed on enumerated inputs"},
]
claim("C01", "proof",
      "For every program of a seeded family (unit/tuple/named structs, enums, <=4 fields/variants, all trait subsets, both entry points, distinct key/by per attribute) Kani proves for ALL value pairs that eq/partial_cmp/cmp equal the documented lexicographic rule (contract on wrappers of the generated methods); Verus proves is_ignore/is_reverse against the doc table for all flag states. The program shape space is sampled, values and flag states are not.",
      "Kani/CBMC, rustc expansion of the real macro, reference rule lib/cmpfam.py; Verus prelude stand-ins; partial_cmp postconditions asserted in loop-free harnesses instead of proof_for_contract",
      "Kani function contracts on real expansions + Verus contracts on extracted generator functions", "DESIGN.md §6 C01", "E-kani")
claim("C02", "proof",
      "Refusal half: Verus lemma over the contracts of is_ignore/is_reverse/bad_attr: any combination accepted for a supertrait-closed derived set is coherent (all 2^20 states). Law half: Kani proves the nine laws for all value pairs/triples on single-attribute-combination programs with one consistent key. Executed cross-check of accept() through the expander (bounded).",
      "Kani/CBMC, Verus/Z3, prelude stand-ins, one consistent key family `ck`",
      "Verus lemma over function contracts + Kani contracts on law wrappers", "DESIGN.md §6 C02", "G-verus")
claim("C05", "proof",
      "Verus proves is_ignore, is_reverse, verify(target), bad_attr (extracted verbatim) against the accept/misplaced vocabulary for all attribute states; the exhaustive 3136-combination x placement x entry-point matrix and the 4x5 misplaced arguments are executed through the real expander and compared with accept() (bounded but exhaustive over the stated matrix).",
      "Verus/Z3; prelude stand-ins (Flag, Span, Expr, Template); parse path and entry loop only executed (bounded)",
      "Verus contracts on extracted generator functions; exhaustive bounded matrix through the expander", "DESIGN.md §6 C05", "G-verus")
claim("C06", "proof",
      "For every program of a seeded family Kani proves for ALL values that the sequence of write_* calls made by the derived Hash::hash equals the reference feed (effective input of each non-ignored field in order, nothing else), contract on a wrapper returning the recorded feed.",
      "Kani/CBMC; recording Hasher with a 32-byte window + exact length; programs sampled",
      "Kani function contracts on real expansions", "DESIGN.md §6 C06", "E-kani")

#!/usr/bin/env python3
"""Writes MANIFEST.json from the registry below (kept in one place so that it is always valid)."""
import json, os, sys
sys.path.insert(0, os.path.dirname(os.path.abspath(__file__)))
V = os.path.dirname(os.path.dirname(os.path.abspath(__file__)))

CHECKS = {}
NA = {}


def claim(pid, category, text, note, technique, design_ref, engine):
    CHECKS[pid] = {
        "property_id": pid, "quick_cmd": "./check %s --tier quick" % pid, "thorough_cmd": "./check %s --tier thorough" % pid,
        "evidence_file": "/verif/evidence/%s.json" % pid, "replay_cmd_template": "./check %s --replay {path}" % pid,
        "engine": engine, "level_claimed": {"category": category, "text": text, "design_ref": design_ref},
        "level_note": note, "technique": technique,
    }


exec(open(os.path.join(V, "lib", "registry.py")).read())

props = [json.loads(l)["id"] for l in open(os.path.join(V, "properties.jsonl"))]
man = {
    "version": 1,
    "setup_cmd": "./check --setup",
    "hooks": {
        "guard": "frozenlib_derive_ex_verif (rustc --cfg)",
        "enable": "RUSTFLAGS='--cfg frozenlib_derive_ex_verif' cargo build of /verif/expander (its [lib] path is /repo/derive-ex/src/lib.rs); layers G (source text) and E (real proc-macro as path dependency) need no hook",
        "baseline_off_cmd": "cd /repo && cargo test --workspace --no-fail-fast --offline",
        "source_commits": HOOK_COMMITS,
        "add_only": True,
    },
    "engines": ENGINES,
    "checks": [CHECKS[p] for p in props if p in CHECKS],
    "not_applicable": [{"property_id": p, "reason": NA.get(p, "no check registered yet in this round; see DESIGN.md")} for p in props if p not in CHECKS],
    "notes": NOTES,
}
json.dump(man, open(os.path.join(V, "MANIFEST.json"), "w"), indent=1)
print("MANIFEST.json: %d checks, %d not_applicable" % (len(man["checks"]), len(man["not_applicable"])))

"""C03/C04: reference resolution of bound(...) (documented nine-level priority) and program generator for the bounded
(expander) check.  Written from doc/derive_ex.md 'Specify trait bound' and the property statements."""
import itertools, random, re
import refmodel as R

ASSIGN = ["absent", "empty", "pred", "dots", "pred_dots", "type", "dots_pred", "pred_dots_type"]     # `..` may stand anywhere in the list
BINOPS = ["Add", "BitAnd", "BitOr", "BitXor", "Div", "Mul", "Rem", "Shl", "Shr", "Sub"]
UNOPS = ["Neg", "Not"]
ENUM_TRAITS = ["Copy", "Clone", "Debug", "Default"] + R.CMP_TRAITS
STRUCT_TRAITS = ENUM_TRAITS + BINOPS + [b + "Assign" for b in BINOPS] + UNOPS + ["Deref", "DerefMut"]

PATH = {"Copy": "::core::marker::Copy", "Clone": "::core::clone::Clone", "Debug": "::core::fmt::Debug", "Default": "::core::default::Default",
        "Ord": "::core::cmp::Ord", "PartialOrd": "::core::cmp::PartialOrd", "Eq": "::core::cmp::Eq", "PartialEq": "::core::cmp::PartialEq",
        "Hash": "::core::hash::Hash", "Deref": "::core::ops::Deref", "DerefMut": "::core::ops::DerefMut"}


def trait_path(t):
    return PATH.get(t, "::core::ops::" + t)


def helper_attrs(trait):
    """helper attributes that may carry bound(...) for this trait, most specific first (documented order)"""
    if trait in R.AFFECTS:
        return list(R.AFFECTS[trait])
    if trait == "Debug":
        return ["debug"]
    if trait == "Default":
        return ["default"]
    return []


def impl_forms(trait):
    """the impls generated for one entry: list of functions ty -> predicate text for a bounded type"""
    p = trait_path(trait)
    if trait in BINOPS:
        return [lambda ty: "%s : %s<%s, Output = %s>" % (ty, p, ty, ty),
                lambda ty: "for<'__a> %s : %s<&'__a %s, Output = %s>" % (ty, p, ty, ty),
                lambda ty: "for<'__a> &'__a %s : %s<%s, Output = %s>" % (ty, p, ty, ty),
                lambda ty: "for<'__a> &'__a %s : %s<&'__a %s, Output = %s>" % (ty, p, ty, ty)]
    if trait.endswith("Assign"):
        return [lambda ty: "%s : %s<%s>" % (ty, p, ty), lambda ty: "for<'__a> %s : %s<&'__a %s>" % (ty, p, ty)]
    if trait in UNOPS:
        return [lambda ty: "%s : %s<Output = %s>" % (ty, p, ty), lambda ty: "for<'__a> &'__a %s : %s<Output = %s>" % (ty, p, ty)]
    return [lambda ty: "%s : %s" % (ty, p)]


def norm(s):
    return re.sub(r"\s+", "", s)


class Slot:
    """one priority level at one placement: kind in helper:<attr> | this | common"""
    def __init__(self, kind, assign, marker):
        self.kind, self.assign, self.marker = kind, assign, marker

    def bound_text(self):
        a = self.assign
        if a == "absent":
            return None
        inner = {"empty": "", "pred": "T: %s" % self.marker, "dots": "..", "pred_dots": "T: %s, .." % self.marker, "type": "Vec<T>", "dots_pred": ".., T: %s" % self.marker,
                 "pred_dots_type": "T: %s, .., Vec<T>" % self.marker}[a]
        return "bound(%s)" % inner


def walk(state, slots, trait_form):
    """state = (preds list, go). Every reached slot contributes; continue only if absent or contains `..`."""
    preds, go = state
    for s in slots:
        if not go:
            break
        a = s.assign
        if a == "absent":
            continue
        if a in ("pred", "pred_dots", "dots_pred", "pred_dots_type"):
            preds.append("T: %s" % s.marker)
        if a in ("type", "pred_dots_type"):
            preds.append(trait_form("Vec<T>"))
        go = a in ("dots", "pred_dots", "dots_pred", "pred_dots_type")
    return preds, go


class BProg:
    """A generic struct/enum with marker bounds at chosen levels."""
    def __init__(self, trait, is_enum, type_slots, variants, where="T: W0"):
        # variants: list of (name, kind, variant_slots, fields) ; fields: list of (name, ty, field_slots)
        self.trait, self.is_enum, self.type_slots, self.variants, self.where = trait, is_enum, type_slots, variants, where
        self.default_variant = 0
        self.valued = set()        # (variant name, field name) of fields carrying an explicit `#[default(expr, ..)]` value (Default only)
        self.keyed = set()         # (variant name, field name) of fields compared through `#[ord(key = ..)]` (comparison traits): no default field bound, the bound(..) levels are untouched

    def attrs_for(self, slots, placement, valued=False, keyed=False):
        """attribute text for one placement"""
        out = []
        this = next((s for s in slots if s.kind == "this"), None)
        common = next((s for s in slots if s.kind == "common"), None)
        for s in slots:
            if s.kind.startswith("helper:"):
                bt = s.bound_text()
                a = s.kind.split(":")[1]
                if bt is not None:
                    out.append("#[%s(%s)]" % (a, (("Default::default(), " if valued else "_, ") + bt) if a == "default" else (("key = kf(&$), " + bt) if keyed and a == "ord" else bt)))
                elif valued and a == "default":
                    out.append("#[default(Default::default())]")
                elif keyed and a == "ord":
                    out.append("#[ord(key = kf(&$))]")
        tb = this.bound_text() if this else None
        cb = common.bound_text() if common else None
        if placement != "type" and (tb is not None or cb is not None):
            item = self.trait + ("(%s)" % tb if tb is not None else "")
            out.append("#[derive_ex(%s%s)]" % (item, (", " + cb) if cb is not None else ""))
        return " ".join(out)

    def macro_args(self):
        this = next((s for s in self.type_slots if s.kind == "this"), None)
        common = next((s for s in self.type_slots if s.kind == "common"), None)
        tb = this.bound_text() if this else None
        cb = common.bound_text() if common else None
        return self.trait + ("(%s)" % tb if tb is not None else "") + ((", " + cb) if cb is not None else "")

    def item_text(self):
        ta = self.attrs_for(self.type_slots, "type")
        def fields_text(kind, fields, vn="X"):
            if kind == "unit":
                return ""
            fs = []
            for (n, ty, sl) in fields:
                at = self.attrs_for(sl, "field", (vn, n) in self.valued, (vn, n) in self.keyed)
                fs.append("%s %s%s" % (at, (n + ": ") if kind == "named" else "", ty))
            return (" { %s }" if kind == "named" else "(%s)") % ", ".join(fs)
        if self.is_enum:
            vs = []
            for i, (vn, kind, vsl, fields) in enumerate(self.variants):
                va = self.attrs_for(vsl, "variant")
                if self.trait == "Default" and i == self.default_variant and "#[default" not in va:
                    va = "#[default] " + va
                vs.append("%s %s%s" % (va, vn, fields_text(kind, fields, vn)))
            return "%s enum X<T> where %s { %s }" % (ta, self.where, ", ".join(vs))
        vn, kind, vsl, fields = self.variants[0]
        if kind == "named":
            return "%s struct X<T> where %s%s" % (ta, self.where, fields_text(kind, fields))
        return "%s struct X<T>%s where %s;" % (ta, fields_text(kind, fields), self.where)

    def expected(self):
        """list (one per generated impl) of expected predicate multisets, or None if the entry must be an error"""
        out = []
        for form in impl_forms(self.trait):
            preds, go = walk(([self.where], True), self.type_slots, form)
            if self.trait in ("Deref", "DerefMut"):
                out.append(sorted(norm(p) for p in preds))
                continue
            for i, (vn, kind, vsl, fields) in enumerate(self.variants):
                if self.is_enum and self.trait == "Default" and i != self.default_variant:
                    continue
                vgo = go
                if self.is_enum:
                    preds, vgo = walk((preds, go), vsl, form)
                for (n, ty, fsl) in fields:
                    preds, fgo = walk((preds, vgo), fsl, form)
                    if fgo and "T" in re.findall(r"\w+", ty) and (vn, n) not in self.valued and (vn, n) not in self.keyed:
                        preds.append(form(ty))
            out.append(sorted(norm(p) for p in preds))
        return out


def slots_for(trait, placement, assigns, mk):
    """assigns: dict kind -> assignment. Order: helper attrs (documented order), per-trait, shared."""
    out = []
    for a in helper_attrs(trait):
        k = "helper:" + a
        out.append(Slot(k, assigns.get(k, "absent"), mk()))
    out.append(Slot("this", assigns.get("this", "absent"), mk()))
    out.append(Slot("common", assigns.get("common", "absent"), mk()))
    return out


def random_prog(rng, trait, is_enum, density=0.45):
    cnt = [0]
    def mk():
        cnt[0] += 1
        return "M%d" % cnt[0]
    def rnd_assigns():
        d = {}
        for k in ["helper:" + a for a in helper_attrs(trait)] + ["this", "common"]:
            if rng.random() < density:
                d[k] = rng.choice(ASSIGN[1:])
        return d
    tslots = slots_for(trait, "type", rnd_assigns(), mk)
    def mkfields(kind):
        if kind == "unit":
            return []
        n = rng.randint(1, 2)
        return [("ab"[i], rng.choice(["Option<T>", "Option<T>", "u8", "Box<T>"]), slots_for(trait, "field", rnd_assigns(), mk)) for i in range(n)]
    if is_enum:
        vs = []
        for i in range(rng.randint(1, 3)):
            kind = rng.choice(["named", "tuple", "unit"]) if i else rng.choice(["named", "tuple"])
            va = rnd_assigns()
            if trait == "Default" and i != 0:
                va.pop("helper:default", None)     # #[default(..)] on a variant also selects it as the default variant
            vs.append(("ABC"[i], kind, slots_for(trait, "variant", va, mk), mkfields(kind)))
    else:
        kind = rng.choice(["named", "tuple"])
        fields = mkfields(kind)
        if trait in ("Deref", "DerefMut"):
            fields = fields[:1]
        vs = [("X", kind, [], fields)]
    prog = BProg(trait, is_enum, tslots, vs)
    if trait in R.CMP_TRAITS:
        # a key on the most general attribute (`ord`, usable by all five traits): the field is compared through it, so it gets no default
        # bound; which bound(..) levels are reached and what they contribute does not depend on it
        for (vn, kind, vsl, fields) in vs:
            for (n, ty, fsl) in fields:
                if rng.random() < 0.35:
                    prog.keyed.add((vn, n))
    if trait == "Default":
        # explicit default values: the field's own bound(..) levels still apply, only its default field bound goes away
        for (vn, kind, vsl, fields) in vs:
            for (n, ty, fsl) in fields:
                if rng.random() < 0.35:
                    prog.valued.add((vn, n))
    return prog


def check_prog(ex, prog, entry="attr"):
    """expand through the real generator; returns (ok, detail)"""
    item = prog.item_text()
    args = prog.macro_args()
    if entry == "attr":
        r = ex.attr(args, item)
    else:
        r = ex.derive("#[derive_ex(%s)] %s" % (args, item))
    if r["status"] != "ok" or r.get("items") is None:
        return False, {"item": item, "args": args, "entry": entry, "problem": "expansion " + r["status"], "result": r}
    impls = [i for i in r["items"] if i["kind"] == "impl"]
    errs = [i for i in r["items"] if i["kind"] == "compile_error"]
    exp = prog.expected()
    if errs:
        return False, {"item": item, "args": args, "entry": entry, "problem": "unexpected error: " + errs[0].get("msg", ""), "expected": exp}
    got = [sorted(norm(p) for p in i["where"]) for i in impls]
    if sorted(map(tuple, got)) != sorted(map(tuple, exp)):
        return False, {"item": item, "args": args, "entry": entry, "problem": "where-clause differs from the documented resolution",
                       "expected": exp, "got": got}
    return True, {"item": item, "args": args, "where": got[0] if got else []}

"""Program families for C07 (clone), C08 (struct operators), C11 (default), C18 (deref)."""
import random
from elayer import Prog

# ------------------------------------------------------------------------------------------------ C07
C07_SUPPORT = r"""
use core::cell::Cell;
/// call log with interior mutability, threaded through the values themselves (no global state)
pub struct Log { pub buf: Cell<[u8; 24]>, pub n: Cell<usize> }
impl Log {
    pub fn new() -> Self { Log { buf: Cell::new([0; 24]), n: Cell::new(0) } }
    pub fn put(&self, b: u8) { let mut a = self.buf.get(); let n = self.n.get(); if n < 24 { a[n] = b; } self.buf.set(a); self.n.set(n + 1); }
    pub fn same(&self, o: &Log) -> bool { self.n.get() == o.n.get() && self.buf.get() == o.buf.get() }
}
impl core::fmt::Debug for Log { fn fmt(&self, f: &mut core::fmt::Formatter) -> core::fmt::Result { write!(f, "{:?}", &self.buf.get()[..self.n.get().min(24)]) } }
/// field type whose Clone::clone / clone_from record (kind, self.id[, source.id]); it is Copy, with a hand-written Clone
#[derive(Debug)]
pub struct Tr<'a> { pub id: u8, pub log: &'a Log }
impl<'a> Copy for Tr<'a> {}
impl<'a> Clone for Tr<'a> {
    fn clone(&self) -> Self { self.log.put(1); self.log.put(self.id); Tr { id: self.id, log: self.log } }
    fn clone_from(&mut self, s: &Self) { self.log.put(2); self.log.put(self.id); self.log.put(s.id); self.id = s.id; }
}
/// field type without a lifetime: the calls are observable in the value (clone: gen+1, clone_from: gen+16)
#[derive(Debug)]
pub struct Tg { pub id: u8, pub gen: u8 }
impl Copy for Tg {}
impl Clone for Tg {
    fn clone(&self) -> Self { Tg { id: self.id, gen: self.gen.wrapping_add(1) } }
    fn clone_from(&mut self, s: &Self) { self.id = s.id; self.gen = s.gen.wrapping_add(16); }
}
// decoys: inherent methods named like the Clone methods (fully qualified calls in generated code never reach them)
impl Tg { pub fn clone(&self) -> Tg { Tg { id: 0xEE, gen: 99 } } pub fn clone_from<R>(&mut self, _s: R) { self.gen = 98; } }
impl<'a> Tr<'a> { pub fn clone(&self) -> u8 { 0xEE } pub fn clone_from<R>(&mut self, _s: R) { self.id = 0xEE; } }
pub type Snap = (u8, [u8; 4], [u8; 4]);
"""


def in_def(td, names=("X",)):
    """the derive_ex item in a module of its own where the by-value decoy trait (support::hijack::HijackAll) is in scope, re-exported"""
    return ("pub mod def {\n#[allow(unused_imports)] use super::*;\n#[allow(unused_imports)] use crate::support::hijack::HijackAll as _;\n%s}\n#[allow(unused_imports)] pub use def::{%s};\n"
            % (td if td.endswith("\n") else td + "\n", ", ".join(names)))


def c07_prog(name, rng, force=None):
    is_enum = rng.random() < 0.6 if force is None else force
    with_lt = rng.random() < 0.55
    pool = ["Tr", "Tr", "u8", "Tg"] if with_lt else ["Tg", "Tg", "u8"]
    derive = rng.choice([["Clone"], ["Clone"], ["Copy", "Clone"], ["Clone", "Copy"]])
    L = "<'a>" if with_lt else ""
    def mkv(vn):
        kind = rng.choice(["unit", "tuple", "named"])
        n = 0 if kind == "unit" else rng.randint(0, 4)
        return (vn, kind, [rng.choice(pool) for _ in range(n)])
    vs = [mkv("ABCD"[i]) for i in range(rng.randint(1, 4))] if is_enum else [mkv("X")]
    TY = {"Tr": "Tr<'a>", "u8": "u8", "Tg": "Tg", "PD": "core::marker::PhantomData<&'a ()>"}
    def fields_decl(kind, tys, pub):
        if kind == "unit":
            return ""
        # field-level `#[derive_ex(Clone(bound(..)))]` / `#[derive_ex(Clone, bound(..))]` on some fields: they only concern bounds and
        # must not change which field is cloned into which
        FA = ["#[derive_ex(Clone(bound()))] ", "#[derive_ex(Clone(bound(..)))] ", "#[derive_ex(Clone, bound(..))] ", "#[derive_ex(Clone, bound())] "]
        ts = [TY[t] for t in tys]
        fa = [(rng.choice(FA) if rng.random() < 0.3 else "") for _ in tys]
        if kind == "named":
            return " { " + ", ".join("%s%s%s: %s" % (fa[i], pub, "abcde"[i], t) for i, t in enumerate(ts)) + " }"
        return "(" + ", ".join(fa[i] + pub + t for i, t in enumerate(ts)) + ")"
    # explicit bound(..) without `..` on the item / on a variant: only the where-clause is concerned (no type parameter here), clone and
    # clone_from must behave as without it
    dl = list(derive)
    bmode = rng.choice([None, None, "entry", "shared", "variant"])
    if bmode == "entry":
        dl = [("Clone(bound())" if t == "Clone" else t) for t in dl]
    elif bmode == "shared":
        dl = dl + ["bound()"]
    # a representation attribute of the user's: it must not change clone / clone_from
    head = "#[derive_ex::derive_ex(%s)]\n#[derive(Debug)]\n%s" % (", ".join(dl), rng.choice(["", "", "#[repr(C)]\n", "#[repr(C)]\n", "#[repr(align(8))]\n"]))
    vattr = lambda: (rng.choice(["#[derive_ex(Clone(bound()))] ", "#[derive_ex(Clone, bound())] "]) if (bmode == "variant" and rng.random() < 0.7) else "")
    if is_enum:
        extra = ", #[doc(hidden)] Zl(core::marker::PhantomData<&'a ()>)" if with_lt else ""
        body = ", ".join(vattr() + v[0] + fields_decl(v[1], v[2], "") for v in vs)
        td = in_def(head + "pub enum X%s { %s%s }\n" % (L, body, extra))
        real = vs
    else:
        v = vs[0]
        if with_lt:
            if v[1] == "unit":
                v = ("X", "tuple", [])
            v = (v[0], v[1], v[2] + ["PD"])
        vs = [v]
        fd = fields_decl(v[1], v[2], "pub ")
        td = in_def(head + "pub struct X%s%s%s\n" % (L, fd, "" if v[1] == "named" else ";"))
        real = vs
    def pat(v, pre):
        path = ("X::" + v[0]) if is_enum else "X"
        if v[1] == "unit":
            return path
        bs = ["%s%d" % (pre, i) for i in range(len(v[2]))]
        if v[1] == "named":
            return path + " { " + ", ".join("%s: %s" % ("abcde"[i], b) for i, b in enumerate(bs)) + " }"
        return path + "(" + ", ".join(bs) + ")"
    def ctor(v):
        path = ("X::" + v[0]) if is_enum else "X"
        if v[1] == "unit":
            return path
        es = [{"Tr": "Tr { id: s.u8(), log }", "u8": "s.u8()", "PD": "core::marker::PhantomData", "Tg": "Tg { id: s.u8(), gen: s.u8() & 7 }"}[t] for t in v[2]]
        if v[1] == "named":
            return path + " { " + ", ".join("%s: %s" % ("abcde"[i], e) for i, e in enumerate(es)) + " }"
        return path + "(" + ", ".join(es) + ")"
    n = len(real)
    mk = "pub fn mk<'a, S: Src>(s: &mut S, log: &'a Log) -> X%s {\n    match s.u8() %% %d {\n%s\n        _ => %s,\n    }\n}\n" % (
        L, n, "\n".join("        %d => %s," % (i, ctor(v)) for i, v in enumerate(real[:-1])), ctor(real[-1]))
    def arr(v, pre, what):
        out = []
        for i, t in enumerate(v[2]):
            if what == "id":
                if t in ("Tr", "Tg"):
                    out.append("%s%d.id" % (pre, i))
                elif t == "u8":
                    out.append("*%s%d" % (pre, i))
            else:
                if t == "Tg":
                    out.append("%s%d.gen" % (pre, i))
                elif t in ("Tr", "u8"):
                    out.append("0")
        out = out[:4] + ["0"] * (4 - len(out[:4]))
        return "[" + ", ".join(out) + "]"
    snap = "pub fn snap(x: &X) -> Snap {\n    match x {\n%s\n        #[allow(unreachable_patterns)] _ => (255, [0; 4], [0; 4]),\n    }\n}\n" % "\n".join(
        "        %s => (%d, %s, %s)," % (pat(v, "x"), i, arr(v, "x", "id"), arr(v, "x", "gen")) for i, v in enumerate(real))
    def gens_after(v, pre, delta):
        out = []
        for i, t in enumerate(v[2]):
            if t == "Tg":
                out.append("%s%d.gen.wrapping_add(%d)" % (pre, i, delta))
            elif t in ("Tr", "u8"):
                out.append("0")
        out = out[:4] + ["0"] * (4 - len(out[:4]))
        return "[" + ", ".join(out) + "]"
    # expected result of clone: same variant / ids, every Tg field cloned exactly once (gen + 1)
    exp_clone = "pub fn exp_clone(x: &X) -> Snap {\n    match x {\n%s\n        #[allow(unreachable_patterns)] _ => (255, [0; 4], [0; 4]),\n    }\n}\n" % "\n".join(
        "        %s => (%d, %s, %s)," % (pat(v, "x"), i, arr(v, "x", "id"), gens_after(v, "x", 1)) for i, v in enumerate(real))
    cf_arms = "\n".join("        (%s, %s) => (%d, %s, %s)," % (pat(v, "_a"), pat(v, "y"), i, arr(v, "y", "id"), gens_after(v, "y", 16)) for i, v in enumerate(real))
    exp_cf = "pub fn exp_clone_from(a: &X, b: &X) -> Snap {\n    match (a, b) {\n%s\n        (_, b) => exp_clone(b),\n    }\n}\n" % cf_arms
    def clone_log(v, pre):
        return " ".join("l.put(1); l.put(%s%d.id);" % (pre, i) for i, t in enumerate(v[2]) if t == "Tr")
    ref_clone = "pub fn ref_clone_log(x: &X) -> Log {\n    let l = Log::new();\n    match x {\n%s\n        #[allow(unreachable_patterns)] _ => {}\n    }\n    l\n}\n" % "\n".join(
        "        %s => { %s }" % (pat(v, "x"), clone_log(v, "x")) for v in real)
    arms = []
    for v in real:
        cf = " ".join("l.put(2); l.put(%s%d.id); l.put(%s%d.id);" % ("x", i, "y", i) for i, t in enumerate(v[2]) if t == "Tr")
        arms.append("        (%s, %s) => { %s }" % (pat(v, "x"), pat(v, "y"), cf))
    ref_cf = ("pub fn ref_clone_from_log(a: &X, b: &X) -> Log {\n    let l = Log::new();\n    match (a, b) {\n%s\n        (_, b) => { let c = ref_clone_log(b); return c; }\n    }\n    l\n}\n" % "\n".join(arms))
    wr = r"""
#[cfg_attr(kani, kani::modifies(log))]
#[cfg_attr(kani, kani::ensures(|r: &XL| log.same(&ref_clone_log(x)) && snap(r) == exp_clone(x)))]
pub fn w_clone<'a>(x: &XL, log: &'a Log) -> XL { Clone::clone(x) }
pub fn w_clone_from<'a>(a: XL, b: &XL, log: &'a Log) -> XL { let mut a = a; Clone::clone_from(&mut a, b); a }
#[cfg(kani)]
pub mod proofs {
    use super::*;
    #[kani::proof_for_contract(w_clone)]
    pub fn clone() { let mut s = KaniSrc; let log = Log::new(); let x = mk(&mut s, &log); let _r = w_clone(&x, &log); kani::cover!(true); }
    // the same kind of postcondition asserted in a loop-free harness: Kani's contract instrumentation of the enum assignment
    // `*lhs = clone(rhs)` (drop glue) costs > 200 s and 11 GB per harness
    #[kani::proof]
    pub fn clone_from() { let mut s = KaniSrc; let log = Log::new(); let a = mk(&mut s, &log); let b = mk(&mut s, &log); let exp = ref_clone_from_log(&a, &b); let es = exp_clone_from(&a, &b); let r = w_clone_from(a, &b, &log); assert!(log.same(&exp) && snap(&r) == es, "postcondition of w_clone_from"); kani::cover!(true); }
}
pub fn replay(h: &str, bytes: &[u8]) -> (bool, String) {
    let mut s = VecSrc { v: bytes.to_vec(), i: 0 };
    let log = Log::new();
    match h {
        "clone" => { let x = mk(&mut s, &log); let r = w_clone(&x, &log); let e = ref_clone_log(&x);
            (log.same(&e) && snap(&r) == exp_clone(&x), format!("x={:?} clone()={:?} expected {:?}; recorded calls={:?} expected calls={:?}", snap(&x), snap(&r), exp_clone(&x), log, e)) }
        "clone_from" => { let a = mk(&mut s, &log); let b = mk(&mut s, &log); let e = ref_clone_from_log(&a, &b); let es = exp_clone_from(&a, &b); let sa = snap(&a); let sb = snap(&b);
            let r = w_clone_from(a, &b, &log);
            (log.same(&e) && snap(&r) == es, format!("a={:?} b={:?} after a.clone_from(&b): a={:?} expected {:?}; recorded calls={:?} expected calls={:?}", sa, sb, snap(&r), es, log, e)) }
        _ => (true, String::from("unknown harness")),
    }
}
""".replace("XL", "X<'a>" if with_lt else "X")
    desc = ("enum " if is_enum else "struct ") + " | ".join("%s%s[%s]" % (v[0], {"unit": "", "tuple": "()", "named": "{}"}[v[1]], ",".join(v[2])) for v in vs) + " derive_ex(%s)%s" % (", ".join(derive), " <'a>" if with_lt else "")
    return Prog(name, td + "\n" + mk + snap + exp_clone + exp_cf + ref_clone + ref_cf + wr, ["clone", "clone_from"], {"describe": desc})


# ------------------------------------------------------------------------------------------------ C08
BINOPS = ["Add", "BitAnd", "BitOr", "BitXor", "Div", "Mul", "Rem", "Shl", "Shr", "Sub"]
FN = {"Add": "add", "BitAnd": "bitand", "BitOr": "bitor", "BitXor": "bitxor", "Div": "div", "Mul": "mul", "Rem": "rem", "Shl": "shl", "Shr": "shr", "Sub": "sub", "Neg": "neg", "Not": "not"}


def c08_support():
    out = ["""
/// field type: every operator is a distinct non-commutative function of (lhs, rhs); `n` counts operator applications
#[derive(Clone, Copy, Debug, PartialEq, Eq)]
pub struct L { pub v: u8, pub n: u8 }
impl Mk for L { fn mk<S: Src>(s: &mut S) -> Self { L { v: s.u8(), n: 0 } } }
pub fn fop(k: u8, a: L, b: L) -> L { L { v: a.v.wrapping_mul(3).wrapping_add(b.v ^ k.wrapping_mul(37)).wrapping_add(k), n: a.n.wrapping_add(b.n).wrapping_add(1) } }
pub fn fun(k: u8, a: L) -> L { L { v: a.v.wrapping_mul(5) ^ k.wrapping_mul(91), n: a.n.wrapping_add(1) } }
"""]
    for k, op in enumerate(BINOPS):
        f = FN[op]
        out.append("impl core::ops::%s<L> for L { type Output = L; fn %s(self, r: L) -> L { fop(%d, self, r) } }" % (op, f, k))
        out.append("impl<'a> core::ops::%s<&'a L> for L { type Output = L; fn %s(self, r: &'a L) -> L { fop(%d, self, *r) } }" % (op, f, k))
        out.append("impl<'a> core::ops::%s<L> for &'a L { type Output = L; fn %s(self, r: L) -> L { fop(%d, *self, r) } }" % (op, f, k))
        out.append("impl<'a, 'b> core::ops::%s<&'b L> for &'a L { type Output = L; fn %s(self, r: &'b L) -> L { fop(%d, *self, *r) } }" % (op, f, k))
        out.append("impl core::ops::%sAssign<L> for L { fn %s_assign(&mut self, r: L) { *self = fop(%d, *self, r) } }" % (op, f, k))
        out.append("impl<'a> core::ops::%sAssign<&'a L> for L { fn %s_assign(&mut self, r: &'a L) { *self = fop(%d, *self, *r) } }" % (op, f, k))
    # decoys: inherent methods named like the operator methods, doing something else; generated code must reach the trait impls
    # (fully qualified calls), whatever else the field type offers under the same name
    dec = []
    for op in BINOPS:
        f = FN[op]
        dec.append("pub fn %s<R>(self, _r: R) -> L { L { v: 0xEE, n: 77 } }" % f)
        dec.append("pub fn %s_assign<R>(&mut self, _r: R) { self.v = 0xEE; self.n = 77; }" % f)
    dec.append("pub fn neg(self) -> L { L { v: 0xEE, n: 77 } }")
    dec.append("pub fn not(self) -> L { L { v: 0xEE, n: 77 } }")
    out.append("impl L {\n    %s\n}" % "\n    ".join(dec))
    for k, op in enumerate(["Neg", "Not"]):
        f = FN[op]
        out.append("impl core::ops::%s for L { type Output = L; fn %s(self) -> L { fun(%d, self) } }" % (op, f, 20 + k))
        out.append("impl<'a> core::ops::%s for &'a L { type Output = L; fn %s(self) -> L { fun(%d, *self) } }" % (op, f, 20 + k))
    return "\n".join(out) + "\n"


def c08_prog(name, kind, nfields, ops, generic=False, bounds=None, repr=None, other_first=None):
    """struct with nfields fields of type L deriving the given operator traits; one harness per (trait, form)"""
    fty = "T" if generic else "L"
    g = "<T>" if generic else ""
    XI = "X<L>" if generic else "X"
    names = (["zed", "alpha", "mid", "beta"] if kind == "named" else list("abcd"))[:nfields]
    # bounds: explicit bound(..) arguments without `..` (non-generic programs: nothing needs a bound); they only concern the where-clause
    # and must not change what the operators do.  entry: `Op(bound())`, shared: `.., bound()`, field: nested #[derive_ex(..)] on field 1
    fattr = lambda i: ""
    lst = ", ".join(ops)
    if bounds == "entry":
        lst = ", ".join("%s(bound())" % o for o in ops)
    elif bounds == "shared":
        lst = lst + ", bound()"
    elif bounds == "field":
        fattr = lambda i: ("#[derive_ex(%s)] " % ", ".join("%s(bound())" % o for o in ops)) if i == 1 else ""
    if kind == "unit":
        decl = "pub struct X;"
    elif kind == "named":
        decl = "pub struct X%s { %s }" % (g, ", ".join("%spub %s: %s" % (fattr(i), n, fty) for i, n in enumerate(names)))
    else:
        decl = "pub struct X%s(%s);" % (g, ", ".join(fattr(i) + "pub " + fty for i, _ in enumerate(names)))
    # repr: a representation attribute of the user (`packed` with alignment-1 fields is accepted by the pinned tree); it must not change what the operators do
    std = "Clone, Copy, Debug, PartialEq"
    if other_first:
        # another trait of the same request, listed before the operators, whose helper attribute sits on field 1 (`#[debug(ignore)]`,
        # `#[default(..)]`): helper attributes of one trait do not change what the operators do to that field
        trait, helper = other_first
        lst = trait + ", " + lst
        std = ", ".join(t for t in std.split(", ") if t != trait)
        decl = decl.replace("pub ", helper + " pub ", 2).replace(helper + " pub struct", "pub struct", 1) if kind != "named" else decl.replace("pub %s:" % names[1], "%s pub %s:" % (helper, names[1]), 1)
    td = in_def("#[derive_ex::derive_ex(%s)]\n#[derive(%s)]\n%s%s\n" % (lst, std, ("#[repr(%s)]\n" % repr) if repr else "", decl))
    acc = (lambda v, i: "%s.%s" % (v, names[i])) if kind == "named" else (lambda v, i: "%s.%d" % (v, i))
    if kind == "unit":
        mk = "impl Mk for X { fn mk<S: Src>(s: &mut S) -> Self { X } }\n"
    elif kind == "named":
        mk = "impl Mk for %s { fn mk<S: Src>(s: &mut S) -> Self { X { %s } } }\n" % (XI, ", ".join("%s: L::mk(s)" % n for n in names))
    else:
        mk = "impl Mk for %s { fn mk<S: Src>(s: &mut S) -> Self { X(%s) } }\n" % (XI, ", ".join("L::mk(s)" for _ in names))
    wrappers, proofs, replays, harnesses = [], [], [], []
    def fieldwise(resv, f):
        cs = ["%s == %s" % (acc(resv, i), f(i)) for i in range(nfields)]
        return " && ".join(cs) if cs else "true"
    for op in ops:
        base = op[:-6] if op.endswith("Assign") else op
        f = FN[base]
        if op in ("Neg", "Not"):
            k = 20 + ["Neg", "Not"].index(op)
            for form, call in (("v", "core::ops::%s::%s(*x)" % (op, f)), ("r", "core::ops::%s::%s(x)" % (op, f))):
                h = "%s_%s" % (f, form)
                post = fieldwise("r", lambda i: "fun(%d, %s)" % (k, acc("x", i)))
                wrappers.append("#[cfg_attr(kani, kani::ensures(|r: &%s| %s))]\npub fn w_%s(x: &%s) -> %s { %s }" % (XI, post, h, XI, XI, call))
                proofs.append("    #[kani::proof_for_contract(w_%s)]\n    pub fn %s() { let mut s = KaniSrc; let x = <%s as Mk>::mk(&mut s); let _r = w_%s(&x); kani::cover!(true); }" % (h, h, XI, h))
                replays.append('        "%s" => { let x = <%s as Mk>::mk(&mut s); let r = w_%s(&x); (%s, format!("x={:?} %s = {:?}", x, r)) }' % (h, XI, h, post, h))
                harnesses.append(h)
        elif op.endswith("Assign"):
            k = BINOPS.index(base)
            for form, call in (("v", "core::ops::%s::%s_assign(&mut a, *y)" % (op, f)), ("r", "core::ops::%s::%s_assign(&mut a, y)" % (op, f))):
                h = "%s_assign_%s" % (f, form)
                post = fieldwise("r", lambda i: "fop(%d, %s, %s)" % (k, acc("x", i), acc("y", i)))
                wrappers.append("#[cfg_attr(kani, kani::ensures(|r: &%s| %s))]\npub fn w_%s(x: &%s, y: &%s) -> %s { let mut a = *x; %s; a }" % (XI, post, h, XI, XI, XI, call))
                proofs.append("    #[kani::proof_for_contract(w_%s)]\n    pub fn %s() { let mut s = KaniSrc; let x = <%s as Mk>::mk(&mut s); let y = <%s as Mk>::mk(&mut s); let _r = w_%s(&x, &y); kani::cover!(true); }" % (h, h, XI, XI, h))
                replays.append('        "%s" => { let x = <%s as Mk>::mk(&mut s); let y = <%s as Mk>::mk(&mut s); let r = w_%s(&x, &y); (%s, format!("x={:?} y={:?} after x %s= y: {:?}", x, y, r)) }' % (h, XI, XI, h, post, f))
                harnesses.append(h)
        else:
            k = BINOPS.index(op)
            for form, call in (("vv", "core::ops::%s::%s(*x, *y)" % (op, f)), ("vr", "core::ops::%s::%s(*x, y)" % (op, f)),
                               ("rv", "core::ops::%s::%s(x, *y)" % (op, f)), ("rr", "core::ops::%s::%s(x, y)" % (op, f))):
                h = "%s_%s" % (f, form)
                post = fieldwise("r", lambda i: "fop(%d, %s, %s)" % (k, acc("x", i), acc("y", i)))
                wrappers.append("#[cfg_attr(kani, kani::ensures(|r: &%s| %s))]\npub fn w_%s(x: &%s, y: &%s) -> %s { %s }" % (XI, post, h, XI, XI, XI, call))
                proofs.append("    #[kani::proof_for_contract(w_%s)]\n    pub fn %s() { let mut s = KaniSrc; let x = <%s as Mk>::mk(&mut s); let y = <%s as Mk>::mk(&mut s); let _r = w_%s(&x, &y); kani::cover!(true); }" % (h, h, XI, XI, h))
                replays.append('        "%s" => { let x = <%s as Mk>::mk(&mut s); let y = <%s as Mk>::mk(&mut s); let r = w_%s(&x, &y); (%s, format!("x={:?} y={:?} %s = {:?}", x, y, r)) }' % (h, XI, XI, h, post, h))
                harnesses.append(h)
    text = td + "\n" + mk + "\n".join(wrappers) + "\n#[cfg(kani)]\npub mod proofs {\n    use super::*;\n%s\n}\n" % "\n".join(proofs)
    text += "pub fn replay(h: &str, b: &[u8]) -> (bool, String) {\n    let mut s = VecSrc { v: b.to_vec(), i: 0 };\n    match h {\n%s\n        _ => (true, String::from(\"unknown harness\")),\n    }\n}\n" % "\n".join(replays)
    return Prog(name, text, harnesses, {"describe": "%s struct, %d fields%s%s, ops=%s" % (kind, nfields, " generic" if generic else "", ((" bound()@" + bounds) if bounds else "") + ((" repr(%s)" % repr) if repr else ""), "+".join(ops))})


# ------------------------------------------------------------------------------------------------ C18
def c18_prog(name, kind, fty, generic, where, args="Deref, DerefMut"):
    """single-field struct deriving Deref + DerefMut (args: the derive_ex list, possibly with bound(..) arguments)"""
    g = "<T>" if generic else ""
    w = (" where %s" % where) if where else ""
    decl_ty = fty if not generic else fty.replace("u8", "T")
    XI = "X<u8>" if generic else "X"
    if kind == "named":
        decl = "pub struct X%s%s { pub a: %s }" % (g, w, decl_ty)
        fa = "a"
        ctor = "X { a: v }"
    else:
        decl = "pub struct X%s(pub %s)%s;" % (g, decl_ty, w)
        fa = "0"
        ctor = "X(v)"
    td = in_def("#[derive_ex::derive_ex(%s)]\n%s\n" % (args, decl))
    text = td + r'''
// type identity, not mere coercibility: `Target` and the field type must be the same type
pub fn same_type<A: ?Sized>(_a: &A, _b: &A) {}
pub trait SameTy<B: ?Sized> {} impl<A: ?Sized> SameTy<A> for A {}
pub fn target_is_field_type() where <XI as core::ops::Deref>::Target: SameTy<FTY> {}
#[cfg_attr(kani, kani::ensures(|r: &bool| *r))]
pub fn w_deref(x: &XI) -> bool { let d: &FTY = core::ops::Deref::deref(x); core::ptr::eq(d, &x.FA) }
#[cfg_attr(kani, kani::ensures(|r: &bool| *r))]
pub fn w_deref_mut(x: XI, v: u8) -> bool {
    let mut x = x;
    let p1 = { let m: &mut FTY = core::ops::DerefMut::deref_mut(&mut x); poke(m, v); m as *const FTY };
    core::ptr::eq(p1, &x.FA) && peek(&x.FA) == EXPECT_PEEK
}
#[cfg(kani)]
pub mod proofs {
    use super::*;
    #[kani::proof_for_contract(w_deref)]
    pub fn deref() { let x: XI = CTOR_ANY; target_is_field_type(); let _r = w_deref(&x); kani::cover!(true); }
    #[kani::proof_for_contract(w_deref_mut)]
    pub fn deref_mut() { let x: XI = CTOR_ANY; let _r = w_deref_mut(x, kani::any()); kani::cover!(true); }
}
pub fn replay(h: &str, b: &[u8]) -> (bool, String) {
    let v = <FTY as MkF>::mkf(b.get(0).copied().unwrap_or(0));
    let x: XI = CTOR;
    match h {
        "deref" => { let ok = w_deref(&x); (ok, format!("deref returns the field itself: {}", ok)) }
        "deref_mut" => { let ok = w_deref_mut(x, b.get(1).copied().unwrap_or(7)); (ok, format!("deref_mut returns the field itself and the write lands: {}", ok)) }
        _ => (true, String::new()),
    }
}
'''.replace("EXPECT_PEEK", "TABLE[(v % 4) as usize]" if fty.startswith("&") else "v").replace("XI", XI).replace("FTY", fty).replace("FA", fa).replace("CTOR_ANY", "{ let v = <%s as MkF>::mkf(kani::any()); %s }" % (fty, ctor)).replace("CTOR", "{ %s }" % ctor)
    return Prog(name, text, ["deref", "deref_mut"], {"describe": "derive_ex(%s) %s struct X%s(%s)%s" % (args, kind, g, decl_ty, w)})


C18_SUPPORT = r'''
pub trait MkF { fn mkf(b: u8) -> Self; }
impl MkF for u8 { fn mkf(b: u8) -> Self { b } }
impl MkF for (u8, u8) { fn mkf(b: u8) -> Self { (b, b ^ 0x5a) } }
impl MkF for [u8; 2] { fn mkf(b: u8) -> Self { [b, 1] } }
impl MkF for W<u8> { fn mkf(b: u8) -> Self { W(b) } }
impl MkF for Option<u8> { fn mkf(b: u8) -> Self { Some(b) } }
pub static TABLE: [u8; 4] = [10, 20, 30, 40];
impl MkF for &'static u8 { fn mkf(b: u8) -> Self { &TABLE[(b % 4) as usize] } }
impl MkF for (&'static u8, u8) { fn mkf(b: u8) -> Self { (&TABLE[(b % 4) as usize], b) } }
impl Poke for &'static u8 { fn poke_(&mut self, v: u8) { *self = &TABLE[(v % 4) as usize] } fn peek_(&self) -> u8 { **self } }
pub trait Poke { fn poke_(&mut self, v: u8); fn peek_(&self) -> u8; }
impl Poke for u8 { fn poke_(&mut self, v: u8) { *self = v } fn peek_(&self) -> u8 { *self } }
impl Poke for (u8, u8) { fn poke_(&mut self, v: u8) { self.1 = v } fn peek_(&self) -> u8 { self.1 } }
impl Poke for [u8; 2] { fn poke_(&mut self, v: u8) { self[1] = v } fn peek_(&self) -> u8 { self[1] } }
impl Poke for W<u8> { fn poke_(&mut self, v: u8) { self.0 = v } fn peek_(&self) -> u8 { self.0 } }
impl Poke for Option<u8> { fn poke_(&mut self, v: u8) { *self = Some(v) } fn peek_(&self) -> u8 { self.unwrap_or(0) } }
pub fn poke<T: Poke>(t: &mut T, v: u8) { t.poke_(v) }
pub fn peek<T: Poke>(t: &T) -> u8 { t.peek_() }
'''


# ------------------------------------------------------------------------------------------------ C09
def _c09_decoys():
    ms = ["pub fn clone(&self) -> u8 { 0xEE }"]
    for op in BINOPS:
        ms.append("pub fn %s<R_>(self, _r: R_) -> u8 { 0xEE }" % FN[op])
        ms.append("pub fn %s_assign<R_>(&mut self, _r: R_) { self.v = 0xEE; }" % FN[op])
    body = "\n    ".join(ms)
    return ("// decoys: inherent methods named like Clone::clone and the operator methods; the derived forms must reach the trait impls\n"
            "impl A {\n    %s\n}\nimpl B {\n    %s\n}\nimpl<T> G<T> {\n    %s\n}\n" % (body, body, body))


C09_TYPES = r'''
/// operand types with an observable clone counter (c) — the user impl records the counters it sees
#[derive(Debug, PartialEq, Eq)]
pub struct A { pub v: u8, pub c: u8 }
#[derive(Debug, PartialEq, Eq)]
pub struct B { pub v: u8, pub c: u8 }
impl Clone for A { fn clone(&self) -> A { A { v: self.v, c: self.c.wrapping_add(1) } } }
impl Clone for B { fn clone(&self) -> B { B { v: self.v, c: self.c.wrapping_add(1) } } }
impl A { pub fn dup(&self) -> A { A { v: self.v, c: self.c } } }
impl B { pub fn dup(&self) -> B { B { v: self.v, c: self.c } } }
impl Mk for A { fn mk<S: Src>(s: &mut S) -> Self { A { v: s.u8(), c: s.u8() & 3 } } }
impl Mk for B { fn mk<S: Src>(s: &mut S) -> Self { B { v: s.u8(), c: s.u8() & 3 } } }
/// generic operand (user generics + where-clause mentioning Self must carry over)
#[derive(Debug, PartialEq, Eq)]
pub struct G<T> { pub v: u8, pub c: u8, pub t: T }
impl<T: Copy> Clone for G<T> { fn clone(&self) -> G<T> { G { v: self.v, c: self.c.wrapping_add(1), t: self.t } } }
impl<T: Copy> G<T> { pub fn dup(&self) -> G<T> { G { v: self.v, c: self.c, t: self.t } } }
impl Mk for G<u8> { fn mk<S: Src>(s: &mut S) -> Self { G { v: s.u8(), c: s.u8() & 3, t: 7 } } }
''' + _c09_decoys()
C09_SUPPORT = r'''
/// the user's (non-commutative, op-specific) computation
pub fn uf(k: u8, l: u8, r: u8) -> u8 { l.wrapping_mul(3).wrapping_add(r ^ k.wrapping_mul(37)).wrapping_add(k) }
'''


def c09_prog(name, op, base_l_ref, base_r_ref, rhs_other, req, generic=False, base_assign=False, self_in_where=None, bound_in_where=False, rhs_spelled_self=False, req_style="list"):
    """req: subset of {'bin','assign'}; base_assign: the user impl is `impl OpAssign<R> for A`, req must be {'bin'}"""
    k = BINOPS.index(op)
    f = FN[op]
    LT = "G<T>" if generic else "A"
    LI = "G<u8>" if generic else "A"
    RT = "B" if rhs_other else LT
    RI = "B" if rhs_other else LI
    # bound_in_where: the bound the user body (and the generated clones) depend on is written in the where-clause only, so a
    # generated impl that loses the where-clause no longer type-checks
    ig = ("<T>" if bound_in_where else "<T: Copy>") if generic else ""
    if self_in_where is None:
        self_in_where = not base_l_ref      # `Self` in the where-clause of a `for &T` impl is a recorded finding (see known_findings.jsonl)
    wh = ((" where Self: Sized" if self_in_where else " where G<T>: Sized") if generic else "")
    if generic and bound_in_where:
        wh += ", T: Copy"
    tfield = ", t: self.t" if generic else ""
    lty = ("&" if base_l_ref else "") + LT
    rty = ("&" if base_r_ref else "") + RT
    # the Rhs written with `Self` where that names the same type (`impl Sub<Self> for &A` is `impl Sub<&A> for &A`)
    hdr_rty = rty
    if rhs_spelled_self and not rhs_other and not base_assign:
        if base_l_ref == base_r_ref:
            hdr_rty = "Self"
        elif base_r_ref and not base_l_ref:
            hdr_rty = "&Self"
    lst = []
    if "bin" in req:
        lst.append(op)
    if "assign" in req:
        lst.append(op + "Assign")
    # the order of the entries and their distribution over sibling attributes must not matter (req_style: list | list_rev | split | split_rev)
    if req_style.endswith("_rev"):
        lst.reverse()
    sibling = ""
    if req_style.startswith("split") and len(lst) == 2:
        sibling = "#[derive_ex(%s)]\n" % lst.pop()
    if base_assign:
        user = ("#[derive_ex::derive_ex(%s)]\nimpl%s core::ops::%sAssign<%s> for %s%s {\n    fn %s_assign(&mut self, rhs: %s) { self.v = uf(%d, self.v, rhs.v); self.c = (self.c << 4) | rhs.c; }\n}\n"
                % (op, ig, op, rty, LT, wh, f, rty, k))
    else:
        user = ("#[derive_ex::derive_ex(%s)]\n%simpl%s core::ops::%s<%s> for %s%s {\n    type Output = %s;\n    fn %s(self, rhs: %s) -> %s { %s { v: uf(%d, self.v, rhs.v), c: (self.c << 4) | rhs.c%s } }\n}\n"
                % (", ".join(lst), sibling, ig, op, hdr_rty, lty, wh, "Self" if (generic and not base_l_ref) else LT, f, rty, LT, "G" if generic else "A", k, tfield))
    wrappers, proofs, replays, harnesses = [], [], [], []
    def add(h, call, exp_v, exp_c):
        post = "r.v == %s && r.c == %s" % (exp_v, exp_c)
        wrappers.append("#[cfg_attr(kani, kani::ensures(|r: &%s| %s))]\npub fn w_%s(x: &%s, y: &%s) -> %s { %s }" % (LI, post, h, LI, RI, LI, call))
        proofs.append("    #[kani::proof_for_contract(w_%s)]\n    pub fn %s() { let mut s = KaniSrc; let x = <%s as Mk>::mk(&mut s); let y = <%s as Mk>::mk(&mut s); let _r = w_%s(&x, &y); kani::cover!(true); }" % (h, h, LI, RI, h))
        replays.append('        "%s" => { let x = <%s as Mk>::mk(&mut s); let y = <%s as Mk>::mk(&mut s); let r = w_%s(&x, &y); (%s, format!("x={:?} y={:?} %s -> {:?}; expected v={} c={:#x}", x, y, r, %s, %s)) }' % (h, LI, RI, h, post, h, exp_v, exp_c))
        harnesses.append(h)
    ev = "uf(%d, x.v, y.v)" % k
    if base_assign:
        # Op from OpAssign: `a op b` == `{ a op= b; a }`, same Rhs as the user impl, no clones
        rarg = "y" if base_r_ref else "y.dup()"
        add("bin_from_assign", "core::ops::%s::%s(x.dup(), %s)" % (op, f, rarg), ev, "((x.c << 4) | y.c)")
        # Output type identity
        wrappers.append("pub fn output_is_self() where <%s as core::ops::%s<%s>>::Output: SameTy2<%s> {}" % (LI, op, rty.replace(LT, LI).replace("&", "&'static "), LI))
    else:
        if "bin" in req:
            for dl in (False, True):
                for dr in (False, True):
                    if dl == base_l_ref and dr == base_r_ref:
                        continue
                    la = "x" if dl else "x.dup()"
                    ra = "y" if dr else "y.dup()"
                    lc = "(x.c + %d)" % (1 if (dl and not base_l_ref) else 0)
                    rc = "(y.c + %d)" % (1 if (dr and not base_r_ref) else 0)
                    add("bin_%s%s" % ("r" if dl else "v", "r" if dr else "v"), "core::ops::%s::%s(%s, %s)" % (op, f, la, ra), ev, "((%s << 4) | %s)" % (lc, rc))
            wrappers.append("pub fn output_carries_over() where <&'static %s as core::ops::%s<&'static %s>>::Output: SameTy2<%s> {}" % (LI, op, RI, LI))
        if "assign" in req:
            if "bin" in req:
                forms = [(False, "y.dup()"), (True, "y")]
            else:
                forms = [(base_r_ref, "y" if base_r_ref else "y.dup()")]
            for (ar, ra) in forms:
                lc = "(x.c + %d)" % (0 if base_l_ref else 1)
                rc = "(y.c + %d)" % (1 if (ar and not base_r_ref) else 0)
                add("assign_%s" % ("r" if ar else "v"), "{ let mut a = x.dup(); <%s as core::ops::%sAssign<%s%s>>::%s_assign(&mut a, %s); a }" % (LI, op, "&" if ar else "", RI, f, ra), ev, "((%s << 4) | %s)" % (lc, rc))
    text = in_def(user, ()) + "\n" + C09_TYPES + "pub trait SameTy2<B: ?Sized> {} impl<A_: ?Sized> SameTy2<A_> for A_ {}\n" + "\n".join(wrappers) + "\n#[cfg(kani)]\npub mod proofs {\n    use super::*;\n%s\n}\n" % "\n".join(proofs)
    text += "pub fn replay(h: &str, b: &[u8]) -> (bool, String) {\n    let mut s = VecSrc { v: b.to_vec(), i: 0 };\n    match h {\n%s\n        _ => (true, String::from(\"unknown harness\")),\n    }\n}\n" % "\n".join(replays)
    desc = "impl %s%s<%s> for %s%s  derive_ex(%s)%s" % (op, "Assign" if base_assign else "", hdr_rty, LT if base_assign else lty, wh, ", ".join(lst) if not base_assign else op, (" + sibling " + sibling.strip()) if sibling else "")
    return Prog(name, text, harnesses, {"describe": desc})


# ------------------------------------------------------------------------------------------------ C11
C11_SUPPORT = r'''
/// probe field type: conversions differ from identity, so whether `Into` was applied is observable
#[derive(Debug, PartialEq, Eq, Clone, Copy, Default)]
pub struct S8(pub u8);
impl From<&str> for S8 { fn from(s: &str) -> S8 { S8(s.len() as u8 + 100) } }
#[derive(Debug, PartialEq, Eq, Clone, Copy)]
pub struct Cc(pub u8);
impl From<Cc> for S8 { fn from(c: Cc) -> S8 { S8(c.0 + 50) } }
// decoys: inherent items named like the trait items the generated code uses
impl S8 { pub fn default() -> S8 { S8(222) } pub fn into(self) -> S8 { S8(233) } pub fn from<R>(_r: R) -> S8 { S8(244) } }
impl Cc { pub fn into(self) -> S8 { S8(234) } }
pub const C_U8: u8 = 41;
pub const C_CC: Cc = Cc(3);
/// converts through `Into` only (no `From<Io> for S8`): the documented conversion is `Into`
pub struct Io(pub u8);
impl Into<S8> for Io { fn into(self) -> S8 { S8(self.0 + 70) } }
pub const C_IO: Io = Io(4);
pub struct K;
impl K { pub const V: u8 = 77; pub const W: Cc = Cc(9); }
pub trait HasC { const V: u8; const W: Cc; const S: &'static str; }
impl HasC for K { const V: u8 = 78; const W: Cc = Cc(11); const S: &'static str = "qself"; }
pub fn mk8() -> u8 { 13 }
pub fn mks() -> S8 { S8(1) }
pub static U8_7: u8 = 7;
/// `&&u8`: reaches a `&u8` field by deref coercion only (no `Into`)
pub const C_RR: &&u8 = &&U8_7;
'''

# (field type, attribute expression or None, reference value expression)
C11_FIELD_CASES = [
    ("u8", None, "<u8 as Default>::default()"), ("bool", None, "<bool as Default>::default()"), ("Option<u8>", None, "None"), ("S8", None, "<S8 as Default>::default()"),
    ("u8", "5", "5u8"), ("i16", "-5", "-5i16"), ("bool", "true", "true"), ("char", "'x'", "'x'"),
    ("S8", "C_IO", "<Io as Into<S8>>::into(C_IO)"), ("S8", "crate::support::C_IO", "<Io as Into<S8>>::into(C_IO)"),
    ("S8", '"abc"', '<S8 as From<_>>::from("abc")'), ("u8", "C_U8", "C_U8"), ("S8", "C_CC", "<S8 as From<_>>::from(C_CC)"), ("u8", "K::V", "K::V"), ("S8", "K::W", "<S8 as From<_>>::from(K::W)"),
    ("u8", "mk8()", "mk8()"), ("S8", "mks()", "mks()"), ("u8", "{ 1 + 2 }", "3u8"), ("u8", "_", "<u8 as Default>::default()"), ("Option<u8>", "Some(4)", "Some(4)"),
    ("u8", "<K as HasC>::V", "<K as HasC>::V"), ("S8", "<K as HasC>::W", "<S8 as From<_>>::from(<K as HasC>::W)"), ("S8", "<K as HasC>::S", "<S8 as From<_>>::from(<K as HasC>::S)"), ("S8", "<K>::W", "<S8 as From<_>>::from(K::W)"),
    ("S8", "crate::support::C_CC", "<S8 as From<_>>::from(C_CC)"), ("S8", "self::super::support::K::W", "<S8 as From<_>>::from(K::W)"),
    ("u8", "7, bound()", "7u8"), ("S8", '"xy", bound()', '<S8 as From<_>>::from("xy")'), ("u8", "_, bound()", "0u8"), ("u8", "C_U8 + 1", "42u8"), ("i16", "(-3)", "-3i16"),
    # wrapped paths / literals are not "a path" or "a string literal" any more: no Into (the value only *coerces* to the field type)
    ("&'static u8", "(C_RR)", "&U8_7"), ("&'static u8", "{ C_RR }", "&U8_7"), ("u8", "(C_U8)", "C_U8"), ("u8", "(5)", "5u8"), ("&'static u8", "C_RR as &u8", "&U8_7"),
]


def c11_prog(name, rng, entry, cover=None):
    """cover: a queue of field cases that must be used (a struct takes them in order): every case of the table occurs in every run"""
    is_enum = rng.random() < 0.5 and not cover
    def mkfields(kind):
        if cover:
            return [cover.pop(0) for _ in range(min(len(cover), 4))]
        n = 0 if kind == "unit" else rng.randint(0, 3)
        return [rng.choice(C11_FIELD_CASES) for _ in range(n)]
    def decl(kind, fs, pub):
        if kind == "unit":
            return ""
        items = []
        for i, (ty, at, _) in enumerate(fs):
            a = ("#[default(%s)] " % at) if at is not None else ""
            items.append("%s%s%s%s" % (a, pub, ("f%d: " % i) if kind == "named" else "", ty))
        return (" { %s }" if kind == "named" else "(%s)") % ", ".join(items)
    def ctor(path, kind, fs):
        if kind == "unit":
            return path
        vals = [ref for (_, _, ref) in fs]
        if kind == "named":
            return path + " { " + ", ".join("f%d: %s" % (i, v) for i, v in enumerate(vals)) + " }"
        return path + "(" + ", ".join(vals) + ")"
    tl = None
    if is_enum:
        nv = rng.randint(1, 4)
        kinds = [rng.choice(["unit", "tuple", "named"]) for _ in range(nv)]
        vs = [("ABCD"[i], kinds[i], mkfields(kinds[i])) for i in range(nv)]
        dv = rng.randrange(nv)
        mark = nv > 1 or rng.random() < 0.5
        body = []
        for i, (vn, kind, fs) in enumerate(vs):
            m = ""
            if i == dv and mark:
                m = rng.choice(["#[default] ", "#[default(_)] ", "#[default(_, bound())] "])
            body.append(m + vn + decl(kind, fs, ""))
        ref = ctor("X::" + vs[dv][0], vs[dv][1], vs[dv][2])
        if rng.random() < 0.15:
            tl = "X::%s" % vs[0][0] if vs[0][1] == "unit" else None
        item = "pub enum X { %s }" % ", ".join(body)
        desc = "enum default=%s%s: %s" % (vs[dv][0], "" if mark else "(single, unmarked)", item)
    else:
        kind = rng.choice(["unit", "tuple", "named"]) if not cover else rng.choice(["tuple", "named"])
        fs = mkfields(kind)
        ref = ctor("X", kind, fs)
        item = "pub struct X%s%s" % (decl(kind, fs, "pub "), "" if kind == "named" else ";")
        if rng.random() < 0.2 and cover is None:
            tl = "X::new()"
        desc = "struct: " + item
    tattr = ""
    extra = ""
    if tl is not None:
        tattr = "#[default(%s)]\n" % tl
        if tl == "X::new()":
            extra = "impl X { pub fn new() -> X { let mut x = %s; x } }\n" % ref
            ref = "X::new()"
        else:
            ref = tl
        desc = "type-level #[default(%s)] " % tl + desc
    head = ("#[derive_ex::derive_ex(Default)]\n#[derive(Debug, PartialEq)]\n" if entry == "attr" else "#[derive(derive_ex::Ex, Debug, PartialEq)]\n#[derive_ex(Default)]\n")
    text = head + tattr + item + "\n\n" + extra + r'''
pub fn reference() -> X { REF }
#[cfg_attr(kani, kani::ensures(|r: &X| *r == reference()))]
pub fn w_default() -> X { <X as Default>::default() }
#[cfg(kani)]
pub mod proofs {
    use super::*;
    #[kani::proof_for_contract(w_default)]
    pub fn default() { let _r = w_default(); kani::cover!(true); }
}
pub fn replay(h: &str, b: &[u8]) -> (bool, String) { let d = w_default(); let r = reference(); (d == r, format!("default() = {:?}, documented value = {:?}", d, r)) }
'''.replace("REF", ref)
    return Prog(name, text, ["default"], {"describe": desc + " entry=" + entry})


# ------------------------------------------------------------------------------------------------ C12 / C10
ALL_STD = ["Clone", "Debug", "Default", "PartialEq", "Eq", "PartialOrd", "Ord", "Hash"]
C12_TYPES = ["u8", "i16", "bool", "Option<u8>", "W<u8>"]


def c12_prog(name, rng, entry):
    """a type without helper attributes deriving everything through derive_ex, and its twin with the standard derives"""
    is_enum = rng.random() < 0.55
    generic = rng.random() < 0.3
    lifetime = rng.random() < 0.2
    raw = rng.random() < 0.2
    attrs = " ".join(a for a in ["#[repr(C)]" if rng.random() < 0.15 else "", "#[non_exhaustive]" if rng.random() < 0.15 else ""] if a)
    fnames = ["r#type", "r#match", "r#fn", "r#loop"] if raw else ["a", "b", "c", "d"]
    attrs_maybe_repr = attrs
    vnames = ["r#A", "r#Self_", "r#C", "r#D", "r#E"] if raw else ["A", "B", "C", "D", "E"]
    def mkfields(kind):
        n = 0 if kind == "unit" else rng.randint(0, 4)
        return [rng.choice(C12_TYPES) for _ in range(n)]
    def ty_decl(t):
        t2 = t.replace("u8", "T") if (generic and rng.random() < 0.7) else t
        return t2
    if is_enum:
        nv = rng.choice([0, 1, 1, 2, 3, 4, 5])
        if nv == 0:
            attrs = attrs.replace("#[repr(C)]", "").strip()       # rustc rejects repr(C) on a zero-variant enum (std derive or not)
        vs = [(vnames[i], rng.choice(["unit", "tuple", "named"])) for i in range(nv)]
        vs = [(n, k, mkfields(k)) for n, k in vs]
    else:
        k = rng.choice(["unit", "tuple", "named"])
        vs = [("X", k, mkfields(k))]
    used_t = False
    decls = []
    for (vn, kind, fs) in vs:
        ds = []
        for t in fs:
            d = ty_decl(t)
            used_t = used_t or ("T" in d)
            ds.append(d)
        decls.append(ds)
    if lifetime:
        # a borrowed field in the last variant / struct
        pass
    generic = generic and used_t
    g_decl = "<T: Copy = u8>" if (generic and rng.random() < 0.3 and False) else ("<T>" if generic else "")
    where = " where T: Sized" if (generic and rng.random() < 0.4) else ""
    XI = "X<u8>" if generic else "X"
    def body(kind, ds, pub):
        if kind == "unit":
            return ""
        if kind == "named":
            return " { " + ", ".join("%s%s: %s" % (pub, fnames[i], d) for i, d in enumerate(ds)) + " }"
        return "(" + ", ".join(pub + d for d in ds) + ")"
    derive_list = list(ALL_STD)
    default_variant = None
    if is_enum:
        if len(vs) == 0:
            derive_list.remove("Default")
        else:
            default_variant = rng.randrange(len(vs))
            if vs[default_variant][1] != "unit":
                # the standard derive only accepts unit default variants
                units = [i for i, v in enumerate(vs) if v[1] == "unit"]
                if units:
                    default_variant = units[0]
                else:
                    derive_list.remove("Default")
                    default_variant = None
    def item(kind_kw, with_default_attr):
        if is_enum:
            parts = []
            for i, ((vn, kind, fs), ds) in enumerate(zip(vs, decls)):
                parts.append(("#[default] " if (with_default_attr and i == default_variant) else "") + vn + body(kind, ds, ""))
            return "%s pub enum X%s%s { %s }" % (attrs, g_decl, where, ", ".join(parts))
        (vn, kind, fs), ds = vs[0], decls[0]
        if kind == "named":
            return "%s pub struct X%s%s%s" % (attrs, g_decl, where, body(kind, ds, "pub "))
        return "%s pub struct X%s%s%s;" % (attrs, g_decl, body(kind, ds, "pub "), where)
    lst = ", ".join(derive_list)
    head = ("#[derive_ex::derive_ex(%s)]\n" % lst) if entry == "attr" else ("#[derive(derive_ex::Ex)]\n#[derive_ex(%s)]\n" % lst)
    td = in_def(head + item("", True) + "\n")
    twin = "pub mod twin {\n    use crate::support::*;\n    #[derive(%s)]\n    %s\n}\n" % (lst, item("", True))
    # conversion, construction
    def pat(v, pre):
        vn, kind, fs = v
        path = ("X::" + vn) if is_enum else "X"
        if kind == "unit":
            return path
        bs = ["%s%d" % (pre, i) for i in range(len(fs))]
        if kind == "named":
            return path + " { " + ", ".join("%s: %s" % (fnames[i], b) for i, b in enumerate(bs)) + " }"
        return path + "(" + ", ".join(bs) + ")"
    def ctor(v, path_prefix, exprs):
        vn, kind, fs = v
        path = (path_prefix + "X::" + vn) if is_enum else (path_prefix + "X")
        if kind == "unit":
            return path
        if kind == "named":
            return path + " { " + ", ".join("%s: %s" % (fnames[i], e) for i, e in enumerate(exprs)) + " }"
        return path + "(" + ", ".join(exprs) + ")"
    TI = "twin::" + XI
    if is_enum and not vs:
        conv = "pub fn conv(x: &%s) -> %s { match *x {} }\n" % (XI, TI)
        mk = ""
    else:
        arms = "\n".join("        %s => %s," % (pat(v, "x"), ctor(v, "twin::", ["x%d.clone()" % i for i in range(len(v[2]))])) for v in vs)
        conv = "pub fn conv(x: &%s) -> %s {\n    match x {\n%s\n    }\n}\n" % (XI, TI, arms)
        n = len(vs)
        marms = "\n".join("            %d => %s," % (i, ctor(v, "", ["<%s as Mk>::mk(s)" % t for t in v[2]])) for i, v in enumerate(vs[:-1]))
        mk = "impl Mk for %s {\n    fn mk<S: Src>(s: &mut S) -> Self {\n        match s.u8() %% %d {\n%s\n            _ => %s,\n        }\n    }\n}\n" % (
            XI, n, marms, ctor(vs[-1], "", ["<%s as Mk>::mk(s)" % t for t in vs[-1][2]]))
    wrappers, proofs, replays, harnesses = [], [], [], []
    if not (is_enum and not vs):
        def add2(h, ret, derived, twin_e, mode):
            wrappers.append("#[cfg_attr(kani, kani::ensures(|r: &%s| *r == {%s}))]\npub fn w_%s(x: &%s, y: &%s) -> %s { %s }" % (ret, twin_e, h, XI, XI, ret, derived))
            if mode == "assert":
                proofs.append("    #[kani::proof]\n    pub fn %s() { let mut s = KaniSrc; let x = <%s as Mk>::mk(&mut s); let y = <%s as Mk>::mk(&mut s); let r = w_%s(&x, &y); assert!(r == {%s}, \"postcondition of w_%s\"); kani::cover!(true); }" % (h, XI, XI, h, twin_e.replace("(x)", "(&x)").replace("(y)", "(&y)"), h))
            else:
                proofs.append("    #[kani::proof_for_contract(w_%s)]\n    pub fn %s() { let mut s = KaniSrc; let x = <%s as Mk>::mk(&mut s); let y = <%s as Mk>::mk(&mut s); let _r = w_%s(&x, &y); kani::cover!(true); }" % (h, h, XI, XI, h))
            replays.append('        "%s" => { let x = <%s as Mk>::mk(&mut s); let y = <%s as Mk>::mk(&mut s); let d = w_%s(&x, &y); let r = {%s}; (d == r, format!("x={:?} y={:?}: derive_ex gives {:?}, the standard derive gives {:?}", conv(&x), conv(&y), d, r)) }' % (
                h, XI, XI, h, twin_e.replace("(x)", "(&x)").replace("(y)", "(&y)")))
            harnesses.append(h)
        add2("eq", "bool", "PartialEq::eq(x, y)", "PartialEq::eq(&conv(x), &conv(y))", "contract")
        add2("partial_cmp", "Option<Ordering>", "PartialOrd::partial_cmp(x, y)", "PartialOrd::partial_cmp(&conv(x), &conv(y))", "assert")
        add2("cmp", "Ordering", "Ord::cmp(x, y)", "Ord::cmp(&conv(x), &conv(y))", "contract")
        add2("clone", "bool", "conv(&Clone::clone(x)) == conv(x) && { let mut z = Clone::clone(y); Clone::clone_from(&mut z, x); conv(&z) == conv(x) }", "true", "assert")
        add2("hash", "bool", "!(x == y) || { let mut h1 = Rec::new(); let mut h2 = Rec::new(); Hash::hash(x, &mut h1); Hash::hash(y, &mut h2); h1 == h2 }", "true", "assert")
        if "Default" in derive_list:
            add2("default", "bool", "conv(&<%s as Default>::default()) == <%s as Default>::default()" % (XI, TI), "true", "assert")
    specs = ["{:?}", "{:#?}", "{:6?}", "{:<6?}", "{:+?}", "{:.1?}", "{:x?}", "{:#06x?}", "{:^9?}", "{:>08?}"]
    if is_enum and not vs:
        ncheck = "pub fn ncheck() -> Vec<String> { Vec::new() }\n"
    else:
        fm = "\n".join('        if format!("%s", x) != format!("%s", conv(&x)) { out.push(format!("Debug `%s` differs: derive_ex {:?} vs std {:?}", format!("%s", x), format!("%s", conv(&x)))); }' % (sp, sp, sp.replace("{", "{{").replace("}", "}}"), sp, sp) for sp in specs)
        ncheck = ("pub fn ncheck() -> Vec<String> {\n    let mut out = Vec::new();\n    let mut st: u64 = 0x1234567;\n    for _ in 0..300 {\n        let mut v = Vec::new(); for _ in 0..40 { st ^= st << 13; st ^= st >> 7; st ^= st << 17; v.push((st >> 11) as u8); }\n"
                  "        let mut s = VecSrc { v, i: 0 };\n        let x = <%s as Mk>::mk(&mut s);\n%s\n        if !out.is_empty() { break; }\n    }\n    out\n}\n" % (XI, fm))
    text = td + "\n" + twin + conv + mk + "\n".join(wrappers) + "\n#[cfg(kani)]\npub mod proofs {\n    use super::*;\n%s\n}\n" % "\n".join(proofs)
    text += "pub fn replay(h: &str, b: &[u8]) -> (bool, String) {\n    let mut s = VecSrc { v: b.to_vec(), i: 0 };\n    match h {\n%s\n        _ => (true, String::from(\"unknown harness\")),\n    }\n}\n" % "\n".join(replays)
    text += ncheck
    desc = re.sub(r"\s+", " ", item("", True)) + " entry=" + entry
    return Prog(name, text, harnesses, {"describe": desc}, ncheck=True)


import re


# ------------------------------------------------------------------------------------------------ C10
C10_SUPPORT = r'''
/// decoy trait, implemented for everything: `&self` methods named like the methods generated code might call with method syntax
pub trait Hijack {
    fn field(&self, _n: &str, _v: &dyn core::fmt::Debug) -> &Self { self }
    fn finish(&self) -> core::fmt::Result { Ok(()) }
    fn finish_non_exhaustive(&self) -> core::fmt::Result { Ok(()) }
    fn entry(&self, _v: &dyn core::fmt::Debug) -> &Self { self }
    fn pad(&self, _s: &str) -> core::fmt::Result { Ok(()) }
    fn write_str(&self, _s: &str) -> core::fmt::Result { Ok(()) }
}
impl<T: ?Sized> Hijack for T {}
/// the same with BY-VALUE receivers (found by method probing before any `&self` / `&mut self` method, inherent ones included); kept in a
/// module of its own so that only the derive_ex item (and its std twin) sees them
pub mod hijackv {
    pub trait HijackV1: Sized {
        fn field<V>(self, _v: V) -> Self { self }
        fn finish(self) -> core::fmt::Result { Ok(()) }
        fn finish_non_exhaustive(self) -> core::fmt::Result { Ok(()) }
        fn entry<V>(self, _v: V) -> Self { self }
        fn debug_struct<N>(self, _n: N) -> Self { self }
        fn debug_tuple<N>(self, _n: N) -> Self { self }
        fn write_str<S>(self, _s: S) -> core::fmt::Result { Ok(()) }
        fn pad<S>(self, _s: S) -> core::fmt::Result { Ok(()) }
        fn fmt<F>(self, _f: F) -> core::fmt::Result { Ok(()) }
        fn alternate(self) -> bool { false }
    }
    impl<T> HijackV1 for T {}
    pub trait HijackV2: Sized { fn field<N, V>(self, _n: N, _v: V) -> Self { self } }
    impl<T> HijackV2 for T {}
}
impl Mk for i32 { fn mk<S: Src>(s: &mut S) -> Self { i32::from_le_bytes([s.u8(), s.u8(), s.u8(), s.u8()]) >> (s.u8() % 32) } }
impl Mk for f32 { fn mk<S: Src>(s: &mut S) -> Self { [0.0f32, -0.0, 1.5, -2.25, 1e10, 3.14159, f32::NAN, f32::INFINITY, 0.1][(s.u8() % 9) as usize] } }
impl Mk for &'static str { fn mk<S: Src>(s: &mut S) -> Self { ["", "a", "hello world", "q\"uote\n"][(s.u8() % 4) as usize] } }
impl<A: Mk, B: Mk> Mk for (A, B) { fn mk<S: Src>(s: &mut S) -> Self { let a = A::mk(s); let b = B::mk(s); (a, b) } }
impl<T: Mk> Mk for Vec<T> { fn mk<S: Src>(s: &mut S) -> Self { let n = s.u8() % 3; (0..n).map(|_| T::mk(s)).collect() } }
'''
C10_TYPES = ["u8", "i32", "f32", "bool", "&'static str", "Option<u8>", "W<u8>", "(u8, i32)", "Vec<i32>", "Option<f32>"]
C10_SPECS = ["{:?}", "{:#?}", "{:6?}", "{:<6?}", "{:+?}", "{:.1?}", "{:x?}", "{:#06x?}", "{:^9?}", "{:>08?}", "{:#X?}", "{:+.2?}", "{:-^12.3?}", "{:#10?}"]


C10_HOSTILE_NAMES = ["_f", "f", "__f", "fmt", "_fmt", "state", "_0", "_self", "other", "_d", "d", "_s", "__self", "_b", "b", "r#type", "r#match", "r#fn", "r#loop", "r#value"]


def c10_prog(name, rng, entry, first_name=None):
    """first_name: force a named shape whose first field carries that name (systematic hostile-name programs)"""
    is_enum = rng.random() < 0.5 or bool(first_name)      # bindings `_<field>` only exist in enum arms
    generic = rng.random() < 0.25
    def mkvariant(vn, allow_unit=True):
        kind = rng.choice((["unit"] if allow_unit else []) + ["tuple", "named", "tuple", "named"])
        if first_name and vn in ("A", "X"):
            kind = "named"
        n = 0 if kind == "unit" else rng.randint(1 if first_name else 0, 4)
        fs = [[rng.choice(C10_TYPES), rng.random() < 0.35] for _ in range(n)]      # [type, ignored]
        tr = None
        if n and rng.random() < 0.3:
            tr = rng.randrange(n)
            # the transparent field may also be marked ignore: it still delegates (ignore only matters without transparent)
            fs[tr][1] = "both" if rng.random() < 0.35 else False
        return (vn, kind, fs, tr)
    vs = [mkvariant("ABCD"[i]) for i in range(rng.randint(1, 4))] if is_enum else [mkvariant("X")]
    names = "abcd"
    if rng.random() < 0.35:
        # field names that collide with plausible generated locals once prefixed / as written (formatter `f`, bindings `_<field>`)
        names = rng.sample(C10_HOSTILE_NAMES, 4)
    if first_name:
        names = [first_name] + [x for x in rng.sample(C10_HOSTILE_NAMES, 4) if x != first_name][:3]
    def tdecl(t):
        return t.replace("u8", "T") if generic and "u8" in t else t
    used_t = generic and any("u8" in f[0] for v in vs for f in v[2])
    g = "<T>" if used_t else ""
    XI = "X<u8>" if used_t else "X"
    def body(v, pub, twin):
        vn, kind, fs, tr = v
        if kind == "unit":
            return ""
        items = []
        for i, (t, ign) in enumerate(fs):
            if twin and ign:
                continue
            at = ""
            if not twin:
                if ign == "both":
                    at = rng.choice(["#[debug(transparent, ignore)] ", "#[debug(ignore, transparent)] "])
                else:
                    at = ("#[debug(ignore)] " if ign else "") + ("#[debug(transparent)] " if tr == i else "")
            items.append("%s%s%s%s" % (at, pub, (names[i] + ": ") if kind == "named" else "", t if twin else tdecl(t)))
        return (" { %s }" if kind == "named" else "(%s)") % ", ".join(items)
    def item(twin):
        gg = "" if twin else g
        if is_enum:
            return "pub enum X%s { %s }" % (gg, ", ".join(v[0] + body(v, "", twin) for v in vs))
        v = vs[0]
        return "pub struct X%s%s%s" % (gg, body(v, "pub ", twin), "" if v[1] == "named" else ";")
    # Debug alone, or next to another trait of the same request (before / after it, in one list or in a sibling attribute): the
    # `#[debug(..)]` helper attributes mean the same
    lists = rng.choice([["Debug"], ["Debug"], ["Debug, Clone"], ["Clone, Debug"], ["Debug", "Clone"], ["Clone", "Debug"], ["Debug, Clone, PartialEq"]])
    if entry == "attr":
        head = "#[derive_ex::derive_ex(%s)]\n" % lists[0] + "".join("#[derive_ex(%s)]\n" % l for l in lists[1:])
    else:
        head = "#[derive(derive_ex::Ex)]\n" + "".join("#[derive_ex(%s)]\n" % l for l in lists)
    # the item lives in a module where a blanket-implemented trait with `&self` methods named like the builder methods is in scope
    # (method-call syntax on a by-value receiver would pick them before the inherent `&mut self` methods); the twin sees it too
    td = "pub mod def {\n    #[allow(unused_imports)] use crate::support::*;\n    #[allow(unused_imports)] use crate::support::Hijack as _;\n    #[allow(unused_imports)] use crate::support::hijackv::{HijackV1 as _, HijackV2 as _};\n    " + head.replace("\n", "\n    ") + item(False) + "\n}\npub use def::X;\n"
    twin = "pub mod twin {\n    use crate::support::*;\n    #[allow(unused_imports)] use crate::support::Hijack as _;\n    #[allow(unused_imports)] use crate::support::hijackv::{HijackV1 as _, HijackV2 as _};\n    #[derive(Debug)]\n    %s\n}\n" % item(True)
    def ctor(v, prefix, twin_):
        vn, kind, fs, tr = v
        path = (prefix + "X::" + vn) if is_enum else (prefix + "X")
        if kind == "unit":
            return path
        es = []
        for i, (t, ign) in enumerate(fs):
            if twin_ and ign:
                continue
            es.append(("%s: v%d" % (names[i], i)) if kind == "named" else "v%d" % i)
        return path + (" { %s }" if kind == "named" else "(%s)") % ", ".join(es)
    arms = []
    for vi, v in enumerate(vs):
        vn, kind, fs, tr = v
        lets = " ".join("let v%d = <%s as Mk>::mk(s);" % (i, t) for i, (t, ign) in enumerate(fs))
        if tr is not None:
            exp = "SPECS.iter().map(|sp| fmt1(sp, &v%d)).collect::<Vec<_>>()" % tr
        else:
            exp = "{ let t = %s; SPECS.iter().map(|sp| fmt1(sp, &t)).collect::<Vec<_>>() }" % ctor(v, "twin::", True)
        clones = " ".join("let v%d = v%d.clone();" % (i, i) for i in range(len(fs)))
        arms.append("        %s => { %s let expected = { %s %s }; let x: %s = %s; (SPECS.iter().map(|sp| fmt1(sp, &x)).collect(), expected) }" % (
            ("%d" % vi) if vi < len(vs) - 1 else "_", lets, clones, exp, XI, ctor(v, "", False)))
    text = td + "\n" + twin + r'''
pub const SPECS: [&str; NSPEC] = [SPECLIST];
pub fn fmt1<D: core::fmt::Debug>(spec: &str, d: &D) -> String {
    match spec { FMTARMS _ => String::new() }
}
pub fn both<S: Src>(s: &mut S) -> (Vec<String>, Vec<String>) {
    match s.u8() % NV {
ARMS
    }
}
pub fn ncheck() -> Vec<String> {
    let mut out = Vec::new();
    let mut st: u64 = 0x1234567;
    for _ in 0..250 {
        let mut v = Vec::new(); for _ in 0..64 { st ^= st << 13; st ^= st >> 7; st ^= st << 17; v.push((st >> 11) as u8); }
        let mut s = VecSrc { v, i: 0 };
        let (got, exp) = both(&mut s);
        for i in 0..got.len() { if got[i] != exp[i] { out.push(format!("Debug `{}` prints {:?}, the standard derive on the type without ignored fields (or the transparent field alone) prints {:?}", SPECS[i], got[i], exp[i])); } }
        if !out.is_empty() { break; }
    }
    out
}
pub fn replay(h: &str, b: &[u8]) -> (bool, String) { let m = ncheck(); (m.is_empty(), m.join("; ")) }
'''.replace("NSPEC", str(len(C10_SPECS))).replace("SPECLIST", ", ".join('"%s"' % s for s in C10_SPECS)).replace(
        "FMTARMS", " ".join('"%s" => format!("%s", d),' % (s, s) for s in C10_SPECS)).replace("NV", str(len(vs))).replace("ARMS", "\n".join(arms))
    desc = re.sub(r"\s+", " ", item(False).replace("pub ", ""))
    full = []
    for v in vs:
        full.append("%s%s" % (v[0], body(v, "", False)))
    return Prog(name, text, [], {"describe": ("enum " if is_enum else "struct ") + " | ".join(full) + " entry=" + entry}, ncheck=True)


# ------------------------------------------------------------------------------------------------ C20
C20_SUPPORT = r'''
pub fn gk<T: ?Sized>(_x: &T) -> u8 { 0 }
pub fn gby_ord<T: ?Sized>(_a: &T, _b: &T) -> core::cmp::Ordering { core::cmp::Ordering::Equal }
pub fn gby_partial_ord<T: ?Sized>(_a: &T, _b: &T) -> Option<core::cmp::Ordering> { None }
pub fn gby_eq<T: ?Sized>(_a: &T, _b: &T) -> bool { true }
pub fn gby_partial_eq<T: ?Sized>(_a: &T, _b: &T) -> bool { true }
pub fn gby_hash<T: ?Sized, H: core::hash::Hasher>(_a: &T, _h: &mut H) {}
pub trait Marker {}
impl<T: ?Sized> Marker for T {}
pub trait Marker2<W: ?Sized> {}
impl<T: ?Sized, W: ?Sized> Marker2<W> for T {}
/// never implemented: a bound `T: Marker3<Self>` on the type holds in an impl only if the impl header repeats it about the type itself
pub trait Marker3<W: ?Sized> {}
/// operator-capable generic field type with a lifetime
#[derive(Clone, Copy, Debug, Default, PartialEq, Eq, PartialOrd, Ord, Hash)]
pub struct Lt<'a>(pub u8, pub core::marker::PhantomData<&'a ()>);
macro_rules! lt_ops { ($($tr:ident $f:ident $atr:ident $af:ident),*) => { $(
    impl<'a> core::ops::$tr<Lt<'a>> for Lt<'a> { type Output = Lt<'a>; fn $f(self, _r: Lt<'a>) -> Lt<'a> { self } }
    impl<'a, 'x> core::ops::$tr<&'x Lt<'a>> for Lt<'a> { type Output = Lt<'a>; fn $f(self, _r: &'x Lt<'a>) -> Lt<'a> { self } }
    impl<'a, 'x> core::ops::$tr<Lt<'a>> for &'x Lt<'a> { type Output = Lt<'a>; fn $f(self, _r: Lt<'a>) -> Lt<'a> { *self } }
    impl<'a, 'x, 'y> core::ops::$tr<&'y Lt<'a>> for &'x Lt<'a> { type Output = Lt<'a>; fn $f(self, _r: &'y Lt<'a>) -> Lt<'a> { *self } }
    impl<'a> core::ops::$atr<Lt<'a>> for Lt<'a> { fn $af(&mut self, _r: Lt<'a>) {} }
    impl<'a, 'x> core::ops::$atr<&'x Lt<'a>> for Lt<'a> { fn $af(&mut self, _r: &'x Lt<'a>) {} }
)* } }
lt_ops!(Add add AddAssign add_assign, Sub sub SubAssign sub_assign, Mul mul MulAssign mul_assign, BitXor bitxor BitXorAssign bitxor_assign, Shl shl ShlAssign shl_assign);
impl<'a> core::ops::Neg for Lt<'a> { type Output = Lt<'a>; fn neg(self) -> Lt<'a> { self } }
impl<'a, 'x> core::ops::Neg for &'x Lt<'a> { type Output = Lt<'a>; fn neg(self) -> Lt<'a> { *self } }
impl<'a> core::ops::Not for Lt<'a> { type Output = Lt<'a>; fn not(self) -> Lt<'a> { self } }
impl<'a, 'x> core::ops::Not for &'x Lt<'a> { type Output = Lt<'a>; fn not(self) -> Lt<'a> { *self } }
'''
C20_OPS = ["Add", "Sub", "Mul", "BitXor", "Shl", "AddAssign", "SubAssign", "ShlAssign", "Neg", "Not"]


def c20_prog(name, rng, names=None):
    """a type definition only (strict module: deny(warnings)); names: optional renaming dict for C13"""
    import refmodel as R, cmpfam
    nm = {"X": "X", "T": "T", "U": "U", "N": "N", "a": "'a", "f": ["a", "b", "c", "d"], "v": ["A", "B", "C", "D"]}
    if names:
        nm.update(names)
    is_enum = rng.random() < 0.5
    use_lt = rng.random() < 0.35
    use_t = rng.random() < 0.6
    use_n = rng.random() < 0.2
    ops_struct = (not is_enum) and rng.random() < 0.3
    T, LT_, N_ = nm["T"], nm["a"], nm["N"]
    # trait list (supertrait-closed)
    derived = []
    cmp_sets = R.closed_subsets()
    if ops_struct:
        derived = rng.sample(C20_OPS, rng.randint(1, 4))
        if rng.random() < 0.5:
            derived += ["Clone"]
    else:
        if rng.random() < 0.8:
            chosen = rng.choice(cmp_sets)
            derived += [t for t in R.CMP_TRAITS if t in chosen]
        derived += rng.sample(["Clone", "Debug", "Default"], rng.randint(0, 3))
        if "Clone" in derived and rng.random() < 0.3:
            derived.append("Copy")
    if not derived:
        derived = ["Clone"]
    rng.shuffle(derived)
    cmpd = tuple(t for t in R.CMP_TRAITS if t in derived)
    acc = cmpfam.accepted_for(cmpd) if cmpd else None
    def fty():
        if ops_struct:
            opts = ["crate::support::Lt<%s>" % LT_ if use_lt else "crate::support::Lt<'static>"] + ([T] if use_t else [])
            return rng.choice(opts)
        opts = ["u8", "bool"]
        if use_t:
            opts += [T, "Option<%s>" % T, "core::marker::PhantomData<%s>" % T, "(%s, u8)" % T]
        if use_n and "Default" not in derived:
            opts += ["[u8; %s]" % N_] + (["[%s; %s]" % (T, N_)] if use_t else [])
        if use_lt and "Default" not in derived:
            opts += ["&%s u8" % LT_] + (["&%s %s" % (LT_, T)] if use_t else [])
        return rng.choice(opts)
    def fattrs(ty):
        out = []
        if acc and rng.random() < 0.6:
            c = rng.choice(acc)
            out.append(R.attr_text(c, key_expr=lambda a: "crate::support::gk(&$)", by_expr=lambda a: "crate::support::gby_" + a))
        if "Debug" in derived and rng.random() < 0.25:
            out.append("#[debug(ignore)]")
        if "Default" in derived and rng.random() < 0.3 and ty in ("u8", "bool"):
            out.append("#[default(%s)]" % ("7" if ty == "u8" else "true"))
        return " ".join(out)
    def mkfields(kind):
        n = 0 if kind == "unit" else rng.randint(0, 4)
        fs = []
        for i in range(n):
            ty = fty()
            fs.append((nm["f"][i], ty, fattrs(ty)))
        return fs
    def body(kind, fs, pub):
        if kind == "unit":
            return ""
        items = ["%s %s%s%s" % (at, pub, (fn_ + ": ") if kind == "named" else "", ty) for (fn_, ty, at) in fs]
        return (" { %s }" if kind == "named" else "(%s)") % ", ".join(items)
    if is_enum:
        nv = rng.choice([0, 1, 1, 2, 3, 4])
        vs = []
        for i in range(nv):
            kind = rng.choice(["unit", "tuple", "named"])
            vs.append((nm["v"][i], kind, mkfields(kind)))
    else:
        kind = rng.choice(["unit", "tuple", "named"])
        if any(t in derived for t in ("Deref", "DerefMut")):
            kind = "tuple"
        vs = [("X", kind, mkfields(kind))]
    alltys = " ".join(ty for v in vs for (_, ty, _) in v[2])
    import re as _re
    words = _re.findall(r"'?(?:r#)?\w+", alltys)
    gens = []
    if use_lt and LT_ in words:
        gens.append(LT_)
    tw = T in words
    if tw:
        # inline bounds, including ones that mention `Self` (legal on a type definition; every generated impl header must still name the type there)
        gens.append(T + rng.choice(["", ": crate::support::Marker", ": Sized", ": crate::support::Marker2<Self>", ": crate::support::Marker3<Self>", ": crate::support::Marker3<Option<Self>> + Sized"]))
    if use_n and N_ in words:
        gens.append("const %s: usize" % N_)
    g = ("<%s>" % ", ".join(gens)) if gens else ""
    where = ""
    if gens and rng.random() < 0.4:
        where = " where Self: Sized" + (", %s: crate::support::Marker" % T if tw else "")
    elif tw and rng.random() < 0.3:
        where = " where %s: crate::support::Marker" % T
    if is_enum and "Default" in derived:
        if not vs:
            derived.remove("Default")
        elif len(vs) > 1:
            k = rng.randrange(len(vs))
            vs[k] = ("#[default] " + vs[k][0], vs[k][1], vs[k][2])
    lst = ", ".join(derived)
    entry = rng.choice(["attr", "derive"])
    head = ("#[derive_ex::derive_ex(%s)]\n" % lst) if entry == "attr" else ("#[derive(derive_ex::Ex)]\n#[derive_ex(%s)]\n" % lst)
    X = nm["X"]
    if is_enum:
        item = "pub enum %s%s%s { %s }" % (X, g, where, ", ".join(v[0] + body(v[1], v[2], "") for v in vs))
    else:
        v = vs[0]
        if v[1] == "named":
            item = "pub struct %s%s%s%s" % (X, g, where, body(v[1], v[2], "pub "))
        else:
            item = "pub struct %s%s%s%s;" % (X, g, body(v[1], v[2], "pub "), where)
    via_macro = (not names) and rng.random() < 0.2
    if via_macro:
        # the item comes out of a macro_rules! expansion that adds the derive_ex attribute (as the standard derives allow): generated
        # identifiers must resolve like the rest of the generated code whatever syntax context the user's tokens carry
        text = "macro_rules! mk_item { ($($body:tt)*) => { %s $($body)* } }\nmk_item! { %s }\n\npub fn replay(_h: &str, _b: &[u8]) -> (bool, String) { (true, String::new()) }\n" % (head.replace("\n", " "), item)
    else:
        text = head + item + "\n\npub fn replay(_h: &str, _b: &[u8]) -> (bool, String) { (true, String::new()) }\n"
    # the by-value decoy trait is in scope of the whole program (it holds nothing but the item): generated method-syntax calls would land there
    text = "#[allow(unused_imports)] use crate::support::hijack::HijackAll as _;\n" + text
    p = Prog(name, text, [], {"describe": "derive_ex(%s) [%s%s] %s" % (lst, entry, " via macro_rules" if via_macro else "", _re.sub(r"\s+", " ", item))})
    p.meta["plain"] = head + item
    return p



def c09_nested_self_prog(name, op, base_r_ref, generic):
    """`Self` nested inside path types of Output, Rhs-independent where-clause: `type Output = Option<Self>`, `where Option<Self>: Sized`,
    base `impl Op<R> for T` (by-value lhs); the derived `&T` forms must name T there, not &T."""
    k = BINOPS.index(op)
    f = FN[op]
    LT = "G<T>" if generic else "A"
    LI = "G<u8>" if generic else "A"
    ig = "<T: Copy>" if generic else ""
    tfield = ", t: self.t" if generic else ""
    rty = ("&" if base_r_ref else "") + LT
    user = ("#[derive_ex::derive_ex(%s)]\nimpl%s core::ops::%s<%s> for %s where Option<Self>: Sized, (Self, u8): Sized {\n    type Output = Option<Self>;\n"
            "    fn %s(self, rhs: %s) -> Option<Self> { Some(%s { v: uf(%d, self.v, rhs.v), c: (self.c << 4) | rhs.c%s }) }\n}\n"
            % (op, ig, op, rty, LT, f, rty, "G" if generic else "A", k, tfield))
    wrappers, proofs, replays, harnesses = [], [], [], []
    ev = "uf(%d, x.v, y.v)" % k
    for dl in (False, True):
        for dr in (False, True):
            if (not dl) and dr == base_r_ref:
                continue
            h = "bin_%s%s" % ("r" if dl else "v", "r" if dr else "v")
            la = "x" if dl else "x.dup()"
            ra = "y" if dr else "y.dup()"
            lc = "(x.c + %d)" % (1 if dl else 0)
            rc = "(y.c + %d)" % (1 if (dr and not base_r_ref) else 0)
            post = "(match r { Some(a) => a.v == %s && a.c == ((%s << 4) | %s), None => false })" % (ev, lc, rc)
            wrappers.append("#[cfg_attr(kani, kani::ensures(|r: &Option<%s>| %s))]\npub fn w_%s(x: &%s, y: &%s) -> Option<%s> { core::ops::%s::%s(%s, %s) }" % (LI, post, h, LI, LI, LI, op, f, la, ra))
            proofs.append("    #[kani::proof_for_contract(w_%s)]\n    pub fn %s() { let mut s = KaniSrc; let x = <%s as Mk>::mk(&mut s); let y = <%s as Mk>::mk(&mut s); let _r = w_%s(&x, &y); kani::cover!(true); }" % (h, h, LI, LI, h))
            replays.append('        "%s" => { let x = <%s as Mk>::mk(&mut s); let y = <%s as Mk>::mk(&mut s); let r = w_%s(&x, &y); let r = &r; (%s, format!("x={:?} y={:?} %s -> {:?}", x, y, r)) }' % (h, LI, LI, h, post, h))
            harnesses.append(h)
    wrappers.append("pub fn output_carries_over() where <&'static %s as core::ops::%s<&'static %s>>::Output: SameTy2<Option<%s>> {}" % (LI, op, LI, LI))
    text = in_def(user, ()) + "\n" + C09_TYPES + "pub trait SameTy2<B: ?Sized> {} impl<A_: ?Sized> SameTy2<A_> for A_ {}\n" + "\n".join(wrappers) + "\n#[cfg(kani)]\npub mod proofs {\n    use super::*;\n%s\n}\n" % "\n".join(proofs)
    text += "pub fn replay(h: &str, b: &[u8]) -> (bool, String) {\n    let mut s = VecSrc { v: b.to_vec(), i: 0 };\n    match h {\n%s\n        _ => (true, String::from(\"unknown harness\")),\n    }\n}\n" % "\n".join(replays)
    return Prog(name, text, harnesses, {"describe": "impl %s<%s> for %s where Option<Self>: Sized { type Output = Option<Self> }  derive_ex(%s)" % (op, rty, LT, op)})

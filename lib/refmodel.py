"""Reference rules written from the property statements / documentation tables (independent of the repository code)."""
import itertools

OPS = ["ord", "partial_ord", "eq", "partial_eq", "hash"]
TRAIT = {"ord": "Ord", "partial_ord": "PartialOrd", "eq": "Eq", "partial_eq": "PartialEq", "hash": "Hash"}
SNAKE = {v: k for k, v in TRAIT.items()}
CMP_TRAITS = ["Ord", "PartialOrd", "Eq", "PartialEq", "Hash"]

# doc table "which helper attribute affects which trait" (see contracts/_vocab.rs for the partial_eq->Eq note)
AFFECTS = {
    "Ord": ["ord"],
    "PartialOrd": ["partial_ord", "ord"],
    "Eq": ["eq", "ord"],
    "PartialEq": ["partial_eq", "eq", "partial_ord", "ord"],
    "Hash": ["hash", "eq", "ord"],
}  # listed most specific first = documented precedence


def affects(a, tgt):
    return a in AFFECTS[tgt]


ORD_CHOICES = [(), ("ignore",), ("reverse",), ("key",), ("by",), ("reverse", "key"), ("reverse", "by")]
EQ_CHOICES = [(), ("ignore",), ("key",), ("by",)]


def all_combos():
    """the 7*7*4*4*4 = 3136 per-field combinations of the property statements"""
    for o, po, e, pe, h in itertools.product(ORD_CHOICES, ORD_CHOICES, EQ_CHOICES, EQ_CHOICES, EQ_CHOICES):
        yield {"ord": o, "partial_ord": po, "eq": e, "partial_eq": pe, "hash": h}


# argument combinations *inside one attribute* beyond the seven / four listed states (the statement's matrix names the simple states;
# these are still valid inputs and follow from the same rules: ignore / reverse / key / by are independent arguments)
ORD_EXTRA = [("ignore", "reverse"), ("ignore", "key"), ("ignore", "by"), ("key", "by"), ("reverse", "key", "by"), ("ignore", "reverse", "key")]
EQ_EXTRA = [("ignore", "key"), ("ignore", "by"), ("key", "by")]


def extended_combos(rng, n):
    """n random combinations in which at least one attribute is in an extra state"""
    out = []
    while len(out) < n:
        c = {"ord": rng.choice(ORD_CHOICES + ORD_EXTRA), "partial_ord": rng.choice(ORD_CHOICES + ORD_EXTRA), "eq": rng.choice(EQ_CHOICES + EQ_EXTRA),
             "partial_eq": rng.choice(EQ_CHOICES + EQ_EXTRA), "hash": rng.choice(EQ_CHOICES + EQ_EXTRA)}
        if any(c[a] in ORD_EXTRA or c[a] in EQ_EXTRA for a in OPS):
            out.append(c)
    return out


def combo_name(c):
    return ";".join("%s(%s)" % (a, ",".join(c[a])) for a in OPS if c[a]) or "-"


def ign(c, tgt):
    return any("ignore" in c[a] for a in AFFECTS[tgt])


def bad_ignore(c, tgt):
    return ign(c, "PartialEq") and not ign(c, tgt)


def rev(c, tgt):
    return tgt in ("Ord", "PartialOrd") and any("reverse" in c[a] for a in AFFECTS[tgt] if a in ("ord", "partial_ord"))


def bad_reverse(c, tgt):
    return tgt == "Ord" and "reverse" in c["partial_ord"]


def custom(args):
    return "key" in args or "by" in args


def usable(c, a, tgt):
    if not affects(a, tgt):
        return False
    if tgt == "Hash" and a != "hash":
        return "key" in c[a]
    return custom(c[a])


def sel(c, tgt):
    for a in AFFECTS[tgt]:
        if usable(c, a, tgt):
            return a
    return None


def sel_kind(c, tgt):
    """(attr, 'by'|'key') or None"""
    a = sel(c, tgt)
    if a is None:
        return None
    if "by" in c[a] and not (tgt == "Hash" and a != "hash"):
        return (a, "by")
    return (a, "key")


def any_custom(c):
    return any(custom(c[a]) for a in OPS)


def bad_default(c, tgt):
    return sel(c, tgt) is None and any_custom(c)


def accept(c, tgt):
    if bad_ignore(c, tgt):
        return False
    if bad_reverse(c, tgt):
        return False          # "`partial_ord(reverse)` when `Ord` is derived" is refused as such, also on a field Ord ignores
    if ign(c, tgt):
        return True
    return not bad_default(c, tgt)


def parsed_attrs(derived):
    """helper attributes that belong to the derived traits (doc table): a is owned iff some derived trait is affected by it"""
    return [a for a in OPS if any(affects(a, t) for t in derived if t in AFFECTS)]


def restrict(c, derived):
    """the configuration as the macro should see it when only `derived` are requested"""
    owned = parsed_attrs(derived)
    return {a: (c[a] if a in owned else ()) for a in OPS}


def attr_text(c, key_expr=None, by_expr=None, only=None):
    """helper attribute tokens for a field. key_expr(a)/by_expr(a) give the user expressions (distinct per attribute)."""
    key_expr = key_expr or (lambda a: "k_%s($)" % a)
    by_expr = by_expr or (lambda a: "by_%s" % a)
    out = []
    for a in OPS:
        if only is not None and a not in only:
            continue
        args = []
        for x in c[a]:
            if x == "key":
                args.append("key = " + key_expr(a))
            elif x == "by":
                args.append("by = " + by_expr(a))
            else:
                args.append(x)
        if args:
            out.append("#[%s(%s)]" % (a, ", ".join(args)))
    return " ".join(out)


SUPER = {"Ord": ["Eq", "PartialOrd"], "Eq": ["PartialEq"], "PartialOrd": ["PartialEq"], "PartialEq": [], "Hash": []}


def closed_subsets():
    out = []
    for r in range(1, 6):
        for s in itertools.combinations(CMP_TRAITS, r):
            if all(all(u in s for u in SUPER[t]) for t in s):
                out.append(list(s))
    return out

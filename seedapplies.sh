#!/bin/bash
# seedapplies.sh [<repo>]: which archived seeded changes still apply (patch.diff, or the re-created patch_head.diff) to <repo> (default /repo)? Cheap: git apply --check only.
R=${1:-/repo}; n=0; bad=0
for d in /verif/seeded/*/; do
  n=$((n+1))
  if git -C $R apply --check $d/patch.diff 2>/dev/null; then :; elif [ -f $d/patch_head.diff ] && git -C $R apply --check $d/patch_head.diff 2>/dev/null; then :; else echo "does not apply: $(basename $d)"; bad=$((bad+1)); fi
done
echo "$n seeds, $bad do not apply to $(git -C $R rev-parse --short HEAD)"

#!/bin/bash
# Runs every check's quick (or $1) tier on the current tree; prints one line per property.
tier=${1:-quick}
for i in $(seq -w 1 20); do
  s=$(date +%s); out=$(./check C$i --tier $tier 2>&1); rc=$?; e=$(date +%s)
  echo "C$i rc=$rc $((e-s))s $(echo "$out" | grep -E '^(OK|VIOLATION|UNDECIDED|KNOWN)' | head -3 | tr '\n' ' ' | cut -c1-300)"
done

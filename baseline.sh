#!/bin/bash
# Runs the repository's pinned test suite with the verification guard OFF and prints the pass/fail totals.
cd /repo && cargo test --workspace --no-fail-fast --offline 2>&1 | awk '/^test result/ {p+=$4; f+=$6; ig+=$8} END {print "passed=" p " failed=" f " ignored=" ig; if (f>0 || p<346) exit 1}'

#!/bin/bash
# Re-runs every archived seeded change that still applies to /repo's HEAD against the quick check of its own property
# (scratch worktree /tmp/seedrepo; /repo itself is never touched). Prints one line per seed.
cd /verif
H=$(git -C /repo rev-parse HEAD)
git -C /tmp/seedrepo checkout -q --detach $H 2>/dev/null || git -C /repo worktree add --detach /tmp/seedrepo $H -q
for d in seeded/*/; do
  n=$(basename $d); p=${n:0:3}
  git -C /tmp/seedrepo checkout -q -- . ; git -C /tmp/seedrepo clean -fdq -e target
  pf=""
  if git -C /tmp/seedrepo apply --check $PWD/$d/patch.diff 2>/dev/null; then pf=$PWD/$d/patch.diff
  elif [ -f $d/patch_head.diff ] && git -C /tmp/seedrepo apply --check $PWD/$d/patch_head.diff 2>/dev/null; then pf=$PWD/$d/patch_head.diff; fi   # re-created on newer sources
  if [ -n "$pf" ]; then
    r=$(SEEDREPO=/tmp/seedrepo ./seedtest.sh rg_$n $pf $p 2>&1 | grep "^rg_" | head -1 | cut -c1-120)
    note=$(python3 -c "import json,sys; print(json.load(open('$d/meta.json')).get('status_at_head','')[:160])" 2>/dev/null)
    echo "$n :: $(basename $pf) :: $r${note:+ :: NOTE $note}"
  else
    echo "$n :: patch no longer applies to HEAD (base 68cac15)"
  fi
done
git -C /tmp/seedrepo checkout -q -- .
